// Package harness contains the drivers that close the system around the real
// lz code: they enumerate configurations, inputs, operation histories and
// environment answers, execute them on the implementation and compare every
// step with the reference models.
package harness

import (
	"encoding/json"
	"fmt"

	"github.com/ulikunitz/lz"
)

// Kinds lists the seven parser types.
var Kinds = []string{"HP", "BHP", "DHP", "BDHP", "BUP", "GSAP", "OSAP"}

// HashKinds are the parsers that use hash tables.
var HashKinds = []string{"HP", "BHP", "DHP", "BDHP", "BUP"}

// PCfg is a parser configuration together with derived facts.
type PCfg struct {
	Kind string
	JSON string // json.Marshal of the configuration as given (before defaults)
}

// Config parses the JSON form.
func (p PCfg) Config() lz.ParserConfig {
	c, err := lz.ParseJSON([]byte(p.JSON))
	if err != nil {
		panic(fmt.Errorf("harness: bad config %s: %v", p.JSON, err))
	}
	return c
}

func mkCfg(kind string, c lz.ParserConfig) (PCfg, bool) {
	cc := c.Clone()
	cc.SetDefaults()
	if cc.Verify() != nil {
		return PCfg{}, false
	}
	b, err := json.Marshal(c)
	if err != nil {
		panic(err)
	}
	return PCfg{Kind: kind, JSON: string(b)}, true
}

// Geometry returns the grid of buffer geometries built from the given buffer
// sizes: every order relation between BufferSize, ShrinkSize, WindowSize and
// BlockSize occurs. ShrinkSize == BufferSize is excluded (C16 drives it).
func Geometry(bufSizes []int) []lz.BufConfig {
	seen := map[lz.BufConfig]bool{}
	var out []lz.BufConfig
	for _, b := range bufSizes {
		for _, s := range []int{0, 1, b / 2, b - 1} {
			if s < 0 {
				continue
			}
			for _, w := range []int{1, 2, b - 1, b, b + 3} {
				if w < 1 {
					continue
				}
				for _, bl := range []int{1, 2, 3, b - 1, b, b + 1} {
					if bl < 1 {
						continue
					}
					bc := lz.BufConfig{ShrinkSize: s, BufferSize: b, WindowSize: w, BlockSize: bl}
					d := bc
					d.SetDefaults()
					if d.Verify() != nil || d.ShrinkSize >= d.BufferSize {
						continue
					}
					if seen[d] {
						continue
					}
					seen[d] = true
					out = append(out, bc)
				}
			}
		}
	}
	return out
}

// SearchParams enumerates the search-structure parameters of a parser kind.
// level 0 is the small set, level 1 the full set of DESIGN.md section 4.
func SearchParams(kind string, level int) []map[string]int {
	var out []map[string]int
	switch kind {
	case "HP", "BHP":
		ils := []int{2, 3, 4, 8}
		hbs := []int{1, 2, 4}
		if level == 0 {
			ils, hbs = []int{2, 3, 8}, []int{1, 3}
		}
		if level == 2 {
			ils, hbs = []int{2, 3, 4}, []int{1, 2}
		}
		for _, il := range ils {
			for _, hb := range hbs {
				out = append(out, map[string]int{"InputLen": il, "HashBits": hb})
			}
		}
	case "DHP", "BDHP":
		pairs := [][2]int{{2, 3}, {2, 6}, {3, 4}, {4, 8}, {7, 8}}
		hbs := []int{1, 3}
		if level == 0 {
			pairs = [][2]int{{2, 3}, {3, 6}, {4, 8}}
		}
		if level == 2 {
			pairs, hbs = [][2]int{{2, 3}, {2, 6}, {3, 4}}, []int{1, 2}
		}
		for _, p := range pairs {
			for _, h1 := range hbs {
				for _, h2 := range hbs {
					if level == 0 && h1 != h2 {
						continue
					}
					out = append(out, map[string]int{"InputLen1": p[0], "InputLen2": p[1], "HashBits1": h1, "HashBits2": h2})
				}
			}
		}
	case "BUP":
		ils := []int{2, 3, 4, 8}
		hbs := []int{1, 3}
		bss := []int{1, 2, 3}
		if level == 0 {
			ils, bss = []int{2, 3}, []int{1, 2}
		}
		if level == 2 {
			ils, hbs, bss = []int{2, 3}, []int{1, 2}, []int{1, 2}
		}
		for _, il := range ils {
			for _, hb := range hbs {
				for _, bs := range bss {
					out = append(out, map[string]int{"InputLen": il, "HashBits": hb, "BucketSize": bs})
				}
			}
		}
	case "GSAP":
		for _, m := range []int{2, 3, 5} {
			out = append(out, map[string]int{"MinMatchLen": m})
		}
	case "OSAP":
		pairs := [][2]int{{2, 2}, {2, 3}, {2, 273}, {3, 3}, {3, 5}, {4, 273}}
		if level == 0 {
			pairs = [][2]int{{2, 3}, {2, 273}, {3, 273}}
		}
		for _, p := range pairs {
			out = append(out, map[string]int{"MinMatchLen": p[0], "MaxMatchLen": p[1]})
		}
	}
	return out
}

// Build makes a configuration value of the given kind.
func Build(kind string, bc lz.BufConfig, sp map[string]int) lz.ParserConfig {
	var c lz.ParserConfig
	switch kind {
	case "HP":
		c = &lz.HPConfig{InputLen: sp["InputLen"], HashBits: sp["HashBits"]}
	case "BHP":
		c = &lz.BHPConfig{InputLen: sp["InputLen"], HashBits: sp["HashBits"]}
	case "DHP":
		c = &lz.DHPConfig{InputLen1: sp["InputLen1"], HashBits1: sp["HashBits1"], InputLen2: sp["InputLen2"], HashBits2: sp["HashBits2"]}
	case "BDHP":
		c = &lz.BDHPConfig{InputLen1: sp["InputLen1"], HashBits1: sp["HashBits1"], InputLen2: sp["InputLen2"], HashBits2: sp["HashBits2"]}
	case "BUP":
		c = &lz.BUPConfig{InputLen: sp["InputLen"], HashBits: sp["HashBits"], BucketSize: sp["BucketSize"]}
	case "GSAP":
		c = &lz.GSAPConfig{MinMatchLen: sp["MinMatchLen"]}
	case "OSAP":
		c = &lz.OSAPConfig{MinMatchLen: sp["MinMatchLen"], MaxMatchLen: sp["MaxMatchLen"]}
	default:
		panic("unknown kind " + kind)
	}
	c.SetBufConfig(bc)
	return c
}

// Configs returns the product geometry x search parameters for a kind, without
// the tuples NewParser rejects.
func Configs(kind string, geo []lz.BufConfig, level int) []PCfg {
	var out []PCfg
	seen := map[string]bool{}
	for _, sp := range SearchParams(kind, level) {
		for _, bc := range geo {
			c := Build(kind, bc, sp)
			pc, ok := mkCfg(kind, c)
			if !ok || seen[pc.JSON] {
				continue
			}
			seen[pc.JSON] = true
			out = append(out, pc)
		}
	}
	return out
}

// MinMatch returns the minimum and maximum match length the property C02
// states for a defaults-completed configuration.
func MinMatch(kind string, c lz.ParserConfig) (minLen, maxLen int) {
	maxLen = 1 << 62
	switch x := c.(type) {
	case *lz.HPConfig:
		minLen = min(3, x.InputLen)
	case *lz.BHPConfig:
		minLen = min(3, x.InputLen)
	case *lz.DHPConfig:
		minLen = min(3, x.InputLen1)
	case *lz.BDHPConfig:
		minLen = min(3, x.InputLen1)
	case *lz.BUPConfig:
		minLen = min(3, x.InputLen)
	case *lz.GSAPConfig:
		minLen = x.MinMatchLen
	case *lz.OSAPConfig:
		minLen, maxLen = x.MinMatchLen, x.MaxMatchLen
	default:
		panic("unknown config type")
	}
	return
}

// iField reads an int field of a configuration by name (0 if absent).
func iField(c lz.ParserConfig, name string) int {
	b, _ := json.Marshal(c)
	var m map[string]any
	json.Unmarshal(b, &m)
	if f, ok := m[name].(float64); ok {
		return int(f)
	}
	return 0
}
