package engine

// Cooperative scheduler: threads are goroutines that run one at a time and give
// up control only inside yield(). Every scheduling decision is a choice point
// of a Chooser, so Explore enumerates interleavings; alternative 0 always
// continues the running thread (or, when it has finished, the runnable thread
// with the smallest id), every other alternative is a context switch.

type schedThread struct {
	resume chan struct{}
	done   bool
}

// RunThreads runs the thread bodies to completion under the schedule dictated
// by c and returns the sequence of thread ids in the order they were resumed.
// A body receives its yield function and must call it at every scheduling
// point it wants to expose.
func RunThreads(c *Chooser, bodies []func(yield func())) []int {
	n := len(bodies)
	ths := make([]*schedThread, n)
	back := make(chan int) // a thread reports: yielded (id) or finished (-id-1)
	for i := range bodies {
		t := &schedThread{resume: make(chan struct{})}
		ths[i] = t
		i := i
		go func() {
			<-t.resume
			bodies[i](func() {
				back <- i
				<-t.resume
			})
			back <- -i - 1
		}()
	}
	var order []int
	cur := -1
	alive := n
	var enabled []int
	for alive > 0 {
		enabled = enabled[:0]
		if cur >= 0 && !ths[cur].done {
			enabled = append(enabled, cur)
		}
		for i, t := range ths {
			if !t.done && i != cur {
				enabled = append(enabled, i)
			}
		}
		pick := enabled[c.Choose(len(enabled))]
		cur = pick
		order = append(order, pick)
		ths[pick].resume <- struct{}{}
		r := <-back
		if r < 0 {
			ths[-r-1].done = true
			alive--
		}
	}
	return order
}
