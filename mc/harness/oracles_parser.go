package harness

import (
	"bytes"

	"github.com/ulikunitz/lz"
	"verif/mc/ref"
)

// scratch buffers are per Hist to avoid allocation in the hot path.

// OracleC01: expanding the emitted blocks reproduces the bytes consumed.
func OracleC01() *Oracle {
	var out []byte
	return &Oracle{
		Op: func(h *Hist, name string) {
			// bytes the reader handed out are bytes fed: the parser asked for them with a slice it chose itself,
			// so every one of them has to end up in the stream the blocks are compared with
			if name == "readfrom" && h.Last.N != h.Last.Given {
				h.Fail("readfrom-lost", "ReadFrom stored %d of the %d bytes its reader handed out (err %v): bytes fed never appear in a block", h.Last.N, h.Last.Given, h.Last.Err)
			}
		},
		Parse: func(h *Hist, ev *ParseEv) {
			if ev.Nil || ev.Err != nil {
				return
			}
			if ev.N < 0 || ev.N > ev.Unparsed {
				h.Fail("n-range", "Parse returned n=%d with %d unparsed bytes", ev.N, ev.Unparsed)
				return
			}
			// history the decoder has: everything before the block (skipped bytes verbatim)
			out = append(out[:0], h.Stream[:ev.PosBefore]...)
			var err error
			var k int
			out, k, _, err = ref.Expand(out, ev.Blk, 0)
			if err != nil {
				h.Fail("expand-error", "block at position %d cannot be expanded (seq %d): %v; block %+v", ev.PosBefore, k, err, *ev.Blk)
				return
			}
			got := out[ev.PosBefore:]
			want := h.Stream[ev.PosBefore : ev.PosBefore+ev.N]
			if !bytes.Equal(got, want) {
				h.Fail("expand-mismatch", "block at position %d expands to %q, stream has %q (n=%d); block %+v", ev.PosBefore, got, want, ev.N, *ev.Blk)
			}
		},
	}
}

// OracleC02: sequences are well-formed and inside the window.
func OracleC02() *Oracle {
	return &Oracle{
		Parse: func(h *Hist, ev *ParseEv) {
			if ev.Nil || ev.Err != nil {
				return
			}
			pos := int64(ev.PosBefore)
			var lit int64
			for i, s := range ev.Blk.Sequences {
				pos += int64(s.LitLen)
				lit += int64(s.LitLen)
				if s.Offset < 1 {
					h.Fail("offset-zero", "seq %d of block at %d has Offset 0: %+v", i, ev.PosBefore, s)
				}
				if int64(s.Offset) > int64(h.BC.WindowSize) {
					h.Fail("offset-window", "seq %d of block at %d: Offset %d > WindowSize %d", i, ev.PosBefore, s.Offset, h.BC.WindowSize)
				}
				if int64(s.Offset) > pos {
					h.Fail("offset-history", "seq %d of block at %d: Offset %d > %d stream bytes preceding the match", i, ev.PosBefore, s.Offset, pos)
				}
				if int64(s.MatchLen) < int64(h.MinMatch) {
					h.Fail("matchlen-min", "seq %d of block at %d: MatchLen %d < minimum %d", i, ev.PosBefore, s.MatchLen, h.MinMatch)
				}
				if int64(s.MatchLen) > int64(h.MaxMatch) {
					h.Fail("matchlen-max", "seq %d of block at %d: MatchLen %d > MaxMatchLen %d", i, ev.PosBefore, s.MatchLen, h.MaxMatch)
				}
				if s.Aux != 0 {
					h.Fail("aux", "seq %d of block at %d: Aux %d", i, ev.PosBefore, s.Aux)
				}
				pos += int64(s.MatchLen)
			}
			if lit > int64(len(ev.Blk.Literals)) {
				h.Fail("litlen-sum", "block at %d: sum LitLen %d > %d literals", ev.PosBefore, lit, len(ev.Blk.Literals))
			}
		},
	}
}

// OracleC03: Parse accounting and progress.
func OracleC03() *Oracle {
	return &Oracle{
		Parse: func(h *Hist, ev *ParseEv) {
			if ev.Nil {
				return
			}
			blk := ev.Blk
			if ev.Unparsed == 0 {
				if ev.Err != lz.ErrEmptyBuffer {
					h.Fail("empty-noerr", "Parse with nothing unparsed returned n=%d err=%v", ev.N, ev.Err)
				}
				if ev.N != 0 {
					h.Fail("empty-n", "Parse with nothing unparsed returned n=%d", ev.N)
				}
				if len(blk.Sequences) != 0 || len(blk.Literals) != 0 {
					h.Fail("empty-block", "ErrEmptyBuffer but block not emptied: %d sequences %d literals", len(blk.Sequences), len(blk.Literals))
				}
				return
			}
			if ev.Err != nil {
				h.Fail("spurious-error", "Parse with %d unparsed bytes returned err=%v", ev.Unparsed, ev.Err)
				return
			}
			want := min(h.BC.BlockSize, ev.Unparsed)
			if ev.N < 1 || ev.N > want {
				h.Fail("n-range", "Parse returned n=%d, want 1..%d (BlockSize %d, unparsed %d)", ev.N, want, h.BC.BlockSize, ev.Unparsed)
				return
			}
			var lit, ml int64
			for _, s := range blk.Sequences {
				lit += int64(s.LitLen)
				ml += int64(s.MatchLen)
			}
			if lit > int64(len(blk.Literals)) {
				h.Fail("litlen-sum", "sum LitLen %d > %d literals", lit, len(blk.Literals))
				return
			}
			if ev.Flags&lz.NoTrailingLiterals == 0 {
				if int64(ev.N) != ref.BlockLen(blk) {
					h.Fail("n-blocklen", "n=%d but Block.Len()=%d", ev.N, ref.BlockLen(blk))
				}
			} else if len(blk.Sequences) > 0 {
				if int64(len(blk.Literals)) != lit {
					h.Fail("ntl-literals", "NoTrailingLiterals: %d literals carried, sequences claim %d", len(blk.Literals), lit)
				}
				if int64(ev.N) != lit+ml {
					h.Fail("ntl-n", "NoTrailingLiterals: n=%d, end of last match is %d", ev.N, lit+ml)
				}
			} else {
				if int64(ev.N) != int64(len(blk.Literals)) {
					h.Fail("ntl-nomatch-n", "NoTrailingLiterals without sequence: n=%d, %d literals", ev.N, len(blk.Literals))
				}
			}
			// the block must cover exactly stream[PosBefore:PosBefore+n] (contiguity: no gap or overlap)
			out, _, _, err := ref.Expand(append([]byte(nil), h.Stream[:ev.PosBefore]...), blk, 0)
			if err != nil || !bytes.Equal(out[ev.PosBefore:], h.Stream[ev.PosBefore:ev.PosBefore+ev.N]) {
				h.Fail("not-contiguous", "block does not cover stream[%d:%d] (err %v)", ev.PosBefore, ev.PosBefore+ev.N, err)
			}
		},
		End: func(h *Hist) {},
	}
}

// OracleC14: Parse(nil) consumes input like a normal Parse.
func OracleC14() *Oracle {
	var out []byte
	return &Oracle{
		Panic: func(h *Hist, r any) {
			// a Parse(nil) that panics did not consume its block; panics of other calls are C16's business
			if h.InNilParse {
				h.InNilParse = false
				h.Fail("nil-panic", "Parse(nil) panicked instead of consuming the next block: %v (ops %s)", r, h.OpsString())
				return
			}
			h.St.Add("panics_recovered_and_left_to_C16", 1)
		},
		Parse: func(h *Hist, ev *ParseEv) {
			if ev.Nil {
				want := min(h.BC.BlockSize, ev.Unparsed)
				if ev.Unparsed == 0 {
					if ev.Err != lz.ErrEmptyBuffer || ev.N != 0 {
						h.Fail("nil-empty", "Parse(nil) with nothing buffered returned n=%d err=%v", ev.N, ev.Err)
					}
					return
				}
				if ev.Err != nil {
					h.Fail("nil-error", "Parse(nil) with %d unparsed bytes returned err=%v", ev.Unparsed, ev.Err)
					return
				}
				if ev.N != want {
					h.Fail("nil-n", "Parse(nil) returned n=%d, want min(BlockSize,unparsed)=%d", ev.N, want)
				}
				return
			}
			// A normal Parse: if Parse(nil) has been used before, the block
			// must continue the stream at the advanced position and be
			// decodable by a decoder that received the skipped bytes verbatim.
			if !h.NilUsed {
				return
			}
			if ev.Unparsed == 0 {
				if ev.Err != lz.ErrEmptyBuffer {
					h.Fail("after-nil-not-drained", "after Parse(nil) consumed everything, Parse returned n=%d err=%v (want ErrEmptyBuffer)", ev.N, ev.Err)
				}
				return
			}
			if ev.Err != nil {
				h.Fail("after-nil-error", "Parse after Parse(nil) returned err=%v with %d unparsed", ev.Err, ev.Unparsed)
				return
			}
			if ev.N < 1 || ev.N > ev.Unparsed {
				h.Fail("after-nil-n", "Parse after Parse(nil) returned n=%d with %d unparsed", ev.N, ev.Unparsed)
				return
			}
			out = append(out[:0], h.Stream[:ev.PosBefore]...)
			var err error
			out, _, _, err = ref.Expand(out, ev.Blk, h.BC.WindowSize)
			if err != nil {
				h.Fail("after-nil-expand", "block after Parse(nil) at position %d cannot be expanded: %v", ev.PosBefore, err)
				return
			}
			if !bytes.Equal(out[ev.PosBefore:], h.Stream[ev.PosBefore:ev.PosBefore+ev.N]) {
				h.Fail("after-nil-position", "block after Parse(nil) expands to %q, stream at advanced position %d has %q", out[ev.PosBefore:], ev.PosBefore, h.Stream[ev.PosBefore:ev.PosBefore+ev.N])
			}
		},
	}
}

// OracleC19 checks the maximality clauses (a) and (b). The run clause has its
// own driver.
func OracleC19() *Oracle {
	return &Oracle{
		Parse: func(h *Hist, ev *ParseEv) {
			if ev.Nil || ev.Err != nil || h.PC.Kind == "OSAP" {
				return
			}
			if ev.N < 0 || ev.N > ev.Unparsed {
				return
			}
			blockEnd := ev.PosBefore + ev.N
			pos := ev.PosBefore
			backward := h.PC.Kind == "BHP" || h.PC.Kind == "BDHP"
			for i, s := range ev.Blk.Sequences {
				pos += int(s.LitLen)
				o := int(s.Offset)
				m := int(s.MatchLen)
				if o < 1 || o > pos || pos+m > blockEnd {
					return // malformed: C01/C02 report it
				}
				end := pos + m
				if end < blockEnd && h.Stream[end] == h.Stream[end-o] {
					h.Fail("not-right-maximal", "seq %d %+v at position %d ends at %d before block end %d although next byte %q equals byte at offset", i, s, pos, end, blockEnd, h.Stream[end])
				}
				if backward && s.LitLen > 0 && pos-1-o >= ev.OffBefore && h.Stream[pos-1] == h.Stream[pos-1-o] {
					h.Fail("not-left-maximal", "seq %d %+v at position %d: literal %q in front equals the byte offset before it (still buffered, buffer starts at %d)", i, s, pos, h.Stream[pos-1], ev.OffBefore)
				}
				pos = end
			}
		},
	}
}

// OracleC12: GSAP takes the longest available match.
func OracleC12() *Oracle {
	return &Oracle{
		Parse: func(h *Hist, ev *ParseEv) {
			if ev.Nil || ev.Err != nil || h.NilUsed {
				return
			}
			if ev.N < 1 || ev.N > ev.Unparsed {
				return
			}
			buf := h.Stream[ev.OffBefore:]
			w := ev.PosBefore - ev.OffBefore
			blockEnd := w + ev.N
			smallBuf := h.BC.BufferSize <= h.BC.WindowSize
			i := w
			// literals [i, upto) must have no match of MinMatchLen available
			checkLits := func(upto int) bool {
				if smallBuf {
					for j := i; j < upto; j++ {
						if l := ref.LongestPrev(buf, j, blockEnd); l >= h.MinMatch {
							h.Fail("literal-despite-match", "byte at buffer position %d (abs %d) is a literal although a match of length %d >= MinMatchLen %d is available; block at %d: %+v", j, j+ev.OffBefore, l, h.MinMatch, ev.PosBefore, *ev.Blk)
							return false
						}
					}
				}
				i = upto
				return true
			}
			for k, s := range ev.Blk.Sequences {
				if i+int(s.LitLen)+int(s.MatchLen) > blockEnd {
					return // malformed, C01/C03 report it
				}
				if !checkLits(i + int(s.LitLen)) {
					return
				}
				l := ref.LongestPrev(buf, i, blockEnd)
				if int(s.MatchLen) != l {
					h.Fail("match-not-longest", "seq %d %+v at buffer position %d (abs %d): longest available match has length %d; block at %d: %+v", k, s, i, i+ev.OffBefore, l, ev.PosBefore, *ev.Blk)
					return
				}
				i += int(s.MatchLen)
			}
			checkLits(blockEnd)
		},
	}
}

// OracleC19Run checks the run clause of C19: a flags-0 block of at least 32
// bytes that lies inside a run of one repeated byte carries at most one
// literal byte (hash parsers) or at most MinMatchLen literal bytes (GSAP, OSAP
// with MinMatchLen <= 8).
func OracleC19Run() *Oracle {
	return &Oracle{
		Parse: func(h *Hist, ev *ParseEv) {
			if ev.Nil || ev.Err != nil || ev.Flags != 0 || ev.N < 32 || ev.N > ev.Unparsed {
				return
			}
			blkBytes := h.Stream[ev.PosBefore : ev.PosBefore+ev.N]
			c := blkBytes[0]
			for _, x := range blkBytes {
				if x != c {
					return
				}
			}
			limit := 1
			switch h.PC.Kind {
			case "GSAP", "OSAP":
				if h.MinMatch > 8 {
					return
				}
				limit = h.MinMatch
			}
			h.St.Add("run_blocks_checked", 1)
			if len(ev.Blk.Literals) > limit {
				first := "inside the run"
				if ev.PosBefore == 0 || h.Stream[ev.PosBefore-1] != c {
					first = "starting at the first byte of the run"
				}
				h.Fail("run-literals", "block of %d bytes 0x%02x at stream position %d (buffer position %d, %s) carries %d literal bytes, allowed %d; sequences %v", ev.N, c, ev.PosBefore, ev.PosBefore-ev.OffBefore, first, len(ev.Blk.Literals), limit, ev.Blk.Sequences)
			}
		},
	}
}
