package harness

import (
	"bytes"
	"encoding/binary"
	"encoding/json"
	"fmt"
	"io"
	"runtime"
	"strings"

	"github.com/ulikunitz/lz"
	"verif/mc/engine"
	"verif/mc/ref"
)

// DecOp is one operation of the decoder alphabet.
type DecOp struct {
	Kind     string   `json:"kind"` // WriteByte Write WriteMatch WriteBlock Read WriteTo Flush Reset
	N        int      `json:"n,omitempty"`
	M        uint32   `json:"m,omitempty"`
	O        uint32   `json:"o,omitempty"`
	Seqs     []lz.Seq `json:"seqs,omitempty"`
	Lits     int      `json:"lits,omitempty"` // number of literal bytes of the block
	LitShort bool     `json:"lit_short,omitempty"`
}

func (o DecOp) String() string {
	switch o.Kind {
	case "Write", "Read":
		return fmt.Sprintf("%s(%d)", o.Kind, o.N)
	case "WriteMatch":
		return fmt.Sprintf("WriteMatch(m=%d,o=%d)", o.M, o.O)
	case "WriteBlock":
		var sb strings.Builder
		sb.WriteString("WriteBlock{")
		for _, s := range o.Seqs {
			fmt.Fprintf(&sb, "(L%d M%d O%d)", s.LitLen, s.MatchLen, s.Offset)
		}
		fmt.Fprintf(&sb, " lits=%d}", o.Lits)
		return sb.String()
	}
	return o.Kind
}

// DecNode is a state of the decoder state machine: the real object and the
// reference model.
type DecNode struct {
	Buf     lz.DecoderBuffer
	Model   *ref.Dec
	Level   int // 0 DecoderBuffer, 1 Decoder (Buf is the decoder's buffer)
	Flushed int // Decoder level: bytes the writer has received (== Model.Read)
}

func cloneBuf(b *lz.DecoderBuffer) lz.DecoderBuffer {
	c := *b
	c.Data = make([]byte, len(b.Data), cap(b.Data))
	copy(c.Data[:cap(c.Data)], b.Data[:cap(b.Data)])
	return c
}

func lit(pos int64) byte { return 'a' + byte(pos%3) }

// decAlphabet generates the deterministic, state dependent operation alphabet.
func decAlphabet(n *DecNode, decoder bool) []DecOp {
	b := &n.Buf
	W, B := b.WindowSize, b.BufferSize
	free := B - len(b.Data)
	avail := n.Model.Avail()
	var ops []DecOp
	ops = append(ops, DecOp{Kind: "WriteByte"})
	seenN := map[int]bool{}
	for _, k := range []int{0, 1, 2, free - 1, free, free + 1, B - W, B - W + 1, B, B + 1} {
		if k < 0 || seenN[k] {
			continue
		}
		seenN[k] = true
		ops = append(ops, DecOp{Kind: "Write", N: k})
	}
	u32 := func(x int) uint32 { return uint32(x) }
	if !decoder {
		seenM := map[[2]uint32]bool{}
		for _, m := range []uint32{0, 1, 2, 3, u32(W), u32(W + 1), u32(B), 1<<32 - 1} {
			for _, o := range []uint32{0, 1, 2, u32(max(avail-1, 0)), u32(avail), u32(avail + 1), u32(W), u32(W + 1), 1<<32 - 1} {
				if seenM[[2]uint32{m, o}] {
					continue
				}
				seenM[[2]uint32{m, o}] = true
				ops = append(ops, DecOp{Kind: "WriteMatch", M: m, O: o})
			}
		}
	}
	// blocks
	seenB := map[string]bool{}
	addBlk := func(seqs []lz.Seq, trailing int, short bool) {
		lits := trailing
		for _, s := range seqs {
			if s.LitLen < 1000 { // a huge LitLen is a malformed claim, not literal data
				lits += int(s.LitLen)
			}
		}
		if short {
			lits = lits - trailing - 1
			if lits < 0 {
				return
			}
		}
		op := DecOp{Kind: "WriteBlock", Seqs: append([]lz.Seq(nil), seqs...), Lits: lits, LitShort: short}
		k := op.String()
		if seenB[k] {
			return
		}
		seenB[k] = true
		ops = append(ops, op)
	}
	for _, l := range []uint32{0, 2} {
		for _, m := range []uint32{0, 1, 3, u32(W + 1)} {
			av := min(avail+int(l), W)
			for _, o := range []uint32{0, 1, 2, u32(av), u32(av + 1)} {
				s := lz.Seq{LitLen: l, MatchLen: m, Offset: o}
				addBlk([]lz.Seq{s}, 0, false)
				addBlk([]lz.Seq{s}, 1, false)
			}
		}
	}
	addBlk([]lz.Seq{{LitLen: 2, MatchLen: 1, Offset: 1}}, 0, true)
	addBlk([]lz.Seq{{LitLen: 1, MatchLen: 2, Offset: 1}}, 0, true)
	// the literal slice is one byte short for the SECOND sequence only (its LitLen exceeds what is left but not the block's total)
	addBlk([]lz.Seq{{LitLen: 1, MatchLen: 1, Offset: 1}, {LitLen: 2, MatchLen: 1, Offset: 1}}, 0, true)
	addBlk([]lz.Seq{{LitLen: 2, MatchLen: 1, Offset: 1}, {LitLen: 2, MatchLen: 1, Offset: 2}}, 0, true)
	addBlk(nil, 0, false)
	addBlk(nil, 1, false)
	addBlk(nil, max(free, 0)+1, false)
	addBlk(nil, B-W, false)
	addBlk(nil, B-W+1, false)
	addBlk([]lz.Seq{{LitLen: 0, MatchLen: u32(B), Offset: 1}}, 0, false)
	addBlk([]lz.Seq{{LitLen: 1, MatchLen: u32(B - W), Offset: 1}}, 0, false)
	addBlk([]lz.Seq{{LitLen: 1, MatchLen: u32(W), Offset: 1}}, max(free, 0)+1, false)
	addBlk([]lz.Seq{{LitLen: 0, MatchLen: 1<<32 - 1, Offset: 1}}, 0, false)
	addBlk([]lz.Seq{{LitLen: 1<<32 - 1, MatchLen: 1, Offset: 1}}, 2, false)
	// LitLens whose sum wraps around 2^32 with the overrunning sequence in front of the huge one: 1 + 7 + (2^32-8) on two literal bytes
	{
		op := DecOp{Kind: "WriteBlock", Seqs: []lz.Seq{{LitLen: 1, MatchLen: 1, Offset: 1}, {LitLen: 7, MatchLen: 1, Offset: 1}, {LitLen: 1<<32 - 8}}, Lits: 2}
		if k := op.String(); !seenB[k] {
			seenB[k] = true
			ops = append(ops, op)
		}
	}
	// LitLens whose sum wraps around 2^32: 1 + (2^32-1)
	addBlk([]lz.Seq{{LitLen: 1, MatchLen: 1, Offset: 1}, {LitLen: 1<<32 - 1, MatchLen: 1, Offset: 1}}, 1, false)
	addBlk([]lz.Seq{{LitLen: 0, MatchLen: 1, Offset: 1<<32 - 1}}, 0, false)
	firsts := []lz.Seq{{0, 1, 1, 0}, {2, 3, 2, 0}, {1, 0, 0, 0}, {0, u32(W + 1), 1, 0}, {1, 5, 3, 0}}
	for _, f := range firsts {
		av2 := min(avail+int(f.LitLen)+int(f.MatchLen), W)
		seconds := []lz.Seq{{0, 1, 0, 0}, {1, 2, 1, 0}, {0, 3, u32(av2 + 1), 0}, {3, 1, 1, 0}, {0, u32(B), 1, 0}, {0, 2, 2, 0}, {0, 2, u32(av2), 0}}
		for _, g := range seconds {
			addBlk([]lz.Seq{f, g}, 0, false)
			addBlk([]lz.Seq{f, g}, 2, false)
		}
	}
	// an empty sequence followed by trailing literals that do not fit
	addBlk([]lz.Seq{{}}, max(free, 0)+1, false)
	addBlk([]lz.Seq{{}, {}}, B-W+1, false)
	// blocks of three and four small sequences: one WriteBlock call then needs several drain-and-retry rounds
	one := lz.Seq{LitLen: 1, MatchLen: 1, Offset: 1}
	addBlk([]lz.Seq{one, one, one}, 0, false)
	addBlk([]lz.Seq{one, one, one, one}, 1, false)
	addBlk([]lz.Seq{one, {LitLen: 0, MatchLen: 2, Offset: 2}, {LitLen: 1, MatchLen: 1, Offset: u32(min(avail+5, W) + 1)}}, 0, false) // third sequence malformed after two good ones
	if !decoder {
		unread := len(b.Data) - b.R
		seenR := map[int]bool{}
		for _, k := range []int{0, 1, 2, unread} {
			if seenR[k] {
				continue
			}
			seenR[k] = true
			ops = append(ops, DecOp{Kind: "Read", N: k})
		}
		ops = append(ops, DecOp{Kind: "WriteTo"})
	} else {
		ops = append(ops, DecOp{Kind: "Flush"})
	}
	ops = append(ops, DecOp{Kind: "Reset"})
	return ops
}

// materialize builds the block of an operation for the model state.
func (o *DecOp) block(m *ref.Dec) lz.Block {
	lits := make([]byte, o.Lits, o.Lits+3)
	pos := int64(len(m.Out))
	j := 0
	for _, s := range o.Seqs {
		for i := 0; i < int(min(int64(s.LitLen), int64(o.Lits-j))); i++ {
			lits[j] = lit(pos + int64(i))
			j++
		}
		pos += int64(s.LitLen) + int64(s.MatchLen)
	}
	for ; j < o.Lits; j++ {
		lits[j] = lit(pos)
		pos++
	}
	// poison beyond len so that writes into the caller's spare capacity are seen
	full := lits[:cap(lits)]
	for i := len(lits); i < len(full); i++ {
		full[i] = 0xEE
	}
	seqs := make([]lz.Seq, len(o.Seqs), len(o.Seqs)+1)
	copy(seqs, o.Seqs)
	seqs[:cap(seqs)][len(seqs)] = lz.Seq{LitLen: 0xEEEE, MatchLen: 0xEEEE, Offset: 0xEEEE, Aux: 0xEEEE}
	return lz.Block{Sequences: seqs, Literals: lits}
}

func blockFull(b lz.Block) ([]lz.Seq, []byte) {
	return append([]lz.Seq(nil), b.Sequences[:cap(b.Sequences)]...), append([]byte(nil), b.Literals[:cap(b.Literals)]...)
}

func seqsEqual(a, b []lz.Seq) bool {
	if len(a) != len(b) {
		return false
	}
	for i := range a {
		if a[i] != b[i] {
			return false
		}
	}
	return true
}

// isSizeRefusal tells whether err is one of the two documented refusals for size.
func isSizeRefusal(err error) bool {
	return err == lz.ErrFullBuffer || (err != nil && err.Error() == "lz: MatchLen out of range")
}

// Verdict is a failed sub-oracle of one transition, tagged with the property
// it belongs to.
type Verdict struct {
	Prop string
	Sig  string
	Msg  string
}

type verdicts []Verdict

func (v *verdicts) add(prop, sig, format string, a ...any) {
	*v = append(*v, Verdict{prop, sig, fmt.Sprintf(format, a...)})
}

// spinPanic is raised by the counting writer when a call keeps invoking it
// without anything to write.
type spinPanic struct{}

// countWriter accepts everything and detects retry loops that make no progress.
type countWriter struct {
	got        []byte
	emptyCalls int
	calls      int
}

func (w *countWriter) Write(p []byte) (int, error) {
	w.calls++
	if len(p) == 0 {
		w.emptyCalls++
		if w.emptyCalls >= 4 {
			panic(spinPanic{})
		}
	} else {
		w.emptyCalls = 0
	}
	w.got = append(w.got, p...)
	if len(w.got) > 1<<16 {
		panic(spinPanic{}) // no operation of the alphabet produces that much output: the call will never end
	}
	return len(p), nil
}

// invariants checks the state invariants of C04 and C17 against the model.
func decInvariants(b *lz.DecoderBuffer, m *ref.Dec, v *verdicts, site string) {
	if b.R < 0 || b.R > len(b.Data) {
		v.add("C04", site+"|R-range", "R=%d outside [0,%d]", b.R, len(b.Data))
		return
	}
	if b.Off != int64(len(m.Out)) {
		v.add("C17", site+"|Off", "Off=%d but %d bytes were written since Init/Reset", b.Off, len(m.Out))
	}
	need := m.Avail()
	if len(b.Data) < need {
		v.add("C04", site+"|window-lost", "len(Data)=%d < min(WindowSize,written)=%d: window bytes discarded", len(b.Data), need)
	} else if !bytes.Equal(b.Data[len(b.Data)-need:], m.Out[len(m.Out)-need:]) {
		v.add("C04", site+"|window-content", "last %d bytes of Data %q differ from the stream tail %q", need, b.Data[len(b.Data)-need:], m.Out[len(m.Out)-need:])
	}
	unreadObj := b.Data[b.R:]
	unreadModel := m.Out[m.Read:]
	if !bytes.Equal(unreadObj, unreadModel) {
		v.add("C04", site+"|unread", "unread bytes in buffer %q, model %q (bytes not yet read were discarded, duplicated or corrupted)", unreadObj, unreadModel)
	}
	if len(b.Data) > b.BufferSize && b.BufferSize >= cap(b.Data) {
		v.add("C04", site+"|over-buffer", "len(Data)=%d > BufferSize=%d", len(b.Data), b.BufferSize)
	}
}

// applyDecOp applies op to a clone of n and returns the successor together
// with the failed sub-oracles. ok=false means the successor must not be
// expanded (the object is in an undefined state).
func applyDecOp(n *DecNode, op *DecOp) (next DecNode, v verdicts, ok bool) {
	next = DecNode{Buf: cloneBuf(&n.Buf), Model: n.Model.Clone(), Level: n.Level, Flushed: n.Flushed}
	b := &next.Buf
	m := next.Model
	ok = true
	var d *lz.Decoder
	var cw *countWriter
	site := "DecoderBuffer." + op.Kind
	if n.Level == 1 {
		site = "Decoder." + op.Kind
		cw = &countWriter{}
		var err error
		d, err = lz.NewDecoder(cw, lz.DecoderConfig{WindowSize: b.WindowSize, BufferSize: b.BufferSize})
		if err != nil {
			panic(err)
		}
		*d.VerifBuffer() = *b
		b = d.VerifBuffer()
	}
	defer func() {
		if r := recover(); r != nil {
			ok = false
			if _, isSpin := r.(spinPanic); isSpin {
				v.add("C06", site+"|spin|"+spinClass(n, op), "%s keeps calling the writer with nothing to write: the retry loop makes no progress (state: len(Data)=%d R=%d W=%d B=%d; op %s)", site, len(n.Buf.Data), n.Buf.R, n.Buf.WindowSize, n.Buf.BufferSize, op)
				return
			}
			v.add("C05", site+"|panic", "%s panicked: %v (op %s)", site, r, op)
		}
		if n.Level == 1 {
			next.Buf = *d.VerifBuffer()
		}
	}()
	W, B := b.WindowSize, b.BufferSize
	_ = B
	rejectedMalformed := false
	switch op.Kind {
	case "WriteByte":
		c := lit(int64(len(m.Out)))
		var err error
		if d != nil {
			err = d.WriteByte(c)
		} else {
			err = b.WriteByte(c)
		}
		if err == nil {
			m.Out = append(m.Out, c)
		} else if err != lz.ErrFullBuffer {
			v.add("C04", site+"|error", "valid WriteByte returned %v", err)
		}
	case "Write":
		p := make([]byte, op.N)
		for i := range p {
			p[i] = lit(int64(len(m.Out) + i))
		}
		var k int
		var err error
		if d != nil {
			k, err = d.Write(p)
		} else {
			k, err = b.Write(p)
		}
		if k < 0 || k > len(p) {
			v.add("C17", site+"|n-range", "Write(%d bytes) returned n=%d", len(p), k)
			ok = false
			return
		}
		m.Out = append(m.Out, p[:k]...)
		if err == nil {
			if k != len(p) {
				v.add("C17", site+"|n", "Write(%d bytes) returned n=%d, nil", len(p), k)
			}
		} else if err != lz.ErrFullBuffer {
			v.add("C04", site+"|error", "valid Write returned %v", err)
		} else if d == nil && k != 0 {
			v.add("C17", site+"|n-on-error", "DecoderBuffer.Write returned n=%d with ErrFullBuffer", k)
		}
	case "WriteMatch":
		wellFormed := m.MatchOK(op.M, op.O)
		k, err := b.WriteMatch(op.M, op.O)
		if !wellFormed {
			if err == nil {
				v.add("C05", site+"|accepted-malformed", "WriteMatch(m=%d,o=%d) with %d bytes available (window %d) returned nil", op.M, op.O, m.Avail(), W)
				ok = false
				return
			}
			rejectedMalformed = true
			if k != 0 {
				v.add("C05", site+"|n-on-reject", "rejected WriteMatch returned n=%d", k)
			}
		} else if err == nil {
			if int64(k) != int64(op.M) {
				v.add("C17", site+"|n", "WriteMatch(m=%d) returned n=%d", op.M, k)
			}
			if op.M > 1<<20 {
				ok = false
				return
			}
			m.AppendMatch(op.M, op.O)
		} else {
			if !isSizeRefusal(err) {
				v.add("C04", site+"|error", "valid WriteMatch(m=%d,o=%d) with %d bytes available returned %v", op.M, op.O, m.Avail(), err)
			}
			if k != 0 {
				v.add("C17", site+"|n-on-error", "refused WriteMatch returned n=%d", k)
			}
		}
	case "WriteBlock":
		blk := op.block(m)
		seqsBefore, litsBefore := blockFull(blk)
		km := m.FirstMalformed(&blk)
		var nn, kk, ll int
		var err error
		if d != nil {
			nn, kk, ll, err = d.WriteBlock(blk)
		} else {
			nn, kk, ll, err = b.WriteBlock(blk)
		}
		seqsAfter, litsAfter := blockFull(blk)
		if !seqsEqual(seqsBefore, seqsAfter) || !bytes.Equal(litsBefore, litsAfter) {
			v.add("C05", site+"|block-modified", "the caller's Block was modified by WriteBlock (op %s)", op)
		}
		if kk < 0 || kk > len(blk.Sequences) || ll < 0 || ll > len(blk.Literals) {
			v.add("C17", site+"|kl-range", "WriteBlock returned k=%d l=%d for %d sequences, %d literals", kk, ll, len(blk.Sequences), len(blk.Literals))
			ok = false
			return
		}
		if km >= 0 && (kk > km || err == nil) {
			v.add("C05", site+"|accepted-malformed", "sequence %d of %s is malformed (avail %d, window %d) but WriteBlock returned k=%d err=%v", km, op, m.Avail(), W, kk, err)
			ok = false
			return
		}
		rejectedMalformed = km >= 0
		if km >= 0 && err != nil && !isSizeRefusal(err) && kk != km {
			v.add("C05", site+"|reject-k", "sequence %d of %s is the first malformed one, but the rejection reports k=%d (%v)", km, op, kk, err)
		}
		var wantN, wantL int
		if err == nil {
			wantN, wantL = m.AppendSeqs(&blk, len(blk.Sequences), true)
			if kk != len(blk.Sequences) {
				v.add("C17", site+"|k", "WriteBlock succeeded but k=%d of %d sequences", kk, len(blk.Sequences))
			}
		} else {
			// the literals consumed beyond the k sequences can only be trailing literals written by Decoder (none for the buffer)
			before := len(m.Out)
			wantN, wantL = m.AppendSeqs(&blk, kk, false)
			if km != kk && !isSizeRefusal(err) {
				v.add("C04", site+"|error", "well-formed %s stopped at sequence %d with %v", op, kk, err)
			}
			if d != nil && kk == len(blk.Sequences) && ll > wantL {
				// Decoder may have written part of the trailing literals
				extra := blk.Literals[wantL:ll]
				m.Out = append(m.Out, extra...)
				wantN += len(extra)
				wantL = ll
			}
			_ = before
			if d != nil && km != kk {
				v.add("C07", site+"|refused|"+refusalClass(n.Buf.BufferSize, n.Buf.WindowSize, len(m.Out), &blk, kk, err), "Decoder.WriteBlock refused well-formed %s at sequence %d with %v (W=%d B=%d len(Data)=%d)", op, kk, err, W, n.Buf.BufferSize, len(n.Buf.Data))
			}
		}
		if nn != wantN {
			v.add("C17", site+"|n", "%s returned n=%d but %d bytes were appended (k=%d l=%d err=%v)", op, nn, wantN, kk, ll, err)
			if km >= 0 {
				v.add("C05", site+"|reject-n", "malformed %s rejected at sequence %d returned n=%d, the well-formed prefix has %d bytes", op, kk, nn, wantN)
			}
		}
		if ll != wantL {
			v.add("C17", site+"|l", "%s returned l=%d but %d literal bytes were consumed (k=%d err=%v)", op, ll, wantL, kk, err)
		}
	case "Read":
		p := make([]byte, op.N)
		k, err := b.Read(p)
		want := min(op.N, len(m.Out)-m.Read)
		if err != nil || k != want || !bytes.Equal(p[:max(min(k, len(p)), 0)], m.Out[m.Read:m.Read+want]) {
			v.add("C04", site+"|read", "Read(%d) returned n=%d err=%v data %q; model has %q", op.N, k, err, p[:max(min(k, len(p)), 0)], m.Out[m.Read:m.Read+want])
			ok = false
			return
		}
		m.Read += k
	case "WriteTo":
		w := &countWriter{}
		k, err := b.WriteTo(w)
		if err != nil || !bytes.Equal(w.got, m.Out[m.Read:]) || int(k) != len(w.got) {
			v.add("C04", site+"|writeto", "WriteTo wrote %q n=%d err=%v; model has %q unread", w.got, k, err, m.Out[m.Read:])
			ok = false
			return
		}
		m.Read += int(k)
	case "Flush":
		err := d.Flush()
		if err != nil {
			v.add("C04", site+"|error", "Flush returned %v although the writer accepts everything", err)
		}
	case "Reset":
		if d != nil {
			cw2 := &countWriter{}
			d.Reset(cw2)
			// output after Reset goes to the new writer
			if len(cw.got) != 0 {
				v.add("C04", site+"|reset-wrote", "Reset wrote %q to the old writer", cw.got)
			}
			cw = cw2
		} else {
			b.Reset()
		}
		next.Model = &ref.Dec{W: W}
		m = next.Model
		next.Flushed = 0
	}
	if d != nil {
		// everything the writer received during this call must continue the stream exactly
		end := m.Read + len(cw.got)
		if end > len(m.Out) || !bytes.Equal(cw.got, m.Out[m.Read:end]) {
			v.add("C04", site+"|output", "writer received %q during %s; model expects a prefix of %q", cw.got, op, m.Out[m.Read:])
			ok = false
			return
		}
		m.Read = end
		next.Flushed = end
		if op.Kind == "Flush" && m.Read != len(m.Out) {
			v.add("C04", site+"|flush-incomplete", "after Flush %d of %d bytes have reached the writer", m.Read, len(m.Out))
		}
	}
	nv := len(v)
	decInvariants(b, m, &v, site)
	if rejectedMalformed && len(v) > nv {
		// "rejection is atomic": after rejecting a malformed operation the buffer must be exactly what the model says
		v.add("C05", site+"|reject-not-atomic", "after rejecting malformed %s the buffer is not the state before the call plus the well-formed prefix: %s", op, v[nv].Msg)
	}
	for _, x := range v {
		if strings.HasSuffix(x.Sig, "|Off") || strings.Contains(x.Sig, "|window") || strings.Contains(x.Sig, "|unread") || strings.Contains(x.Sig, "R-range") {
			ok = false
		}
	}
	return
}

// spinClass classifies a spinning call for the known-findings signature.
func spinClass(n *DecNode, op *DecOp) string {
	room := n.Buf.BufferSize - n.Buf.WindowSize
	switch op.Kind {
	case "Write":
		if op.N > room {
			return "len>B-W"
		}
	case "WriteBlock":
		return "block"
	}
	return "other"
}

// refusalClass classifies a refusal of well-formed input by Decoder.WriteBlock.
// written is the number of bytes written before the refused sequence. The
// class "seqlen>B-W" is the recorded open finding: the sequence is longer than
// the free space a completely drained buffer can offer, B-min(W, written). A
// refusal of a sequence that would fit after draining is a different defect.
func refusalClass(B, W, written int, blk *lz.Block, k int, err error) string {
	name := "ErrFullBuffer"
	if err != lz.ErrFullBuffer {
		name = "errMatchLen"
	}
	if k < len(blk.Sequences) {
		s := blk.Sequences[k]
		g := int64(s.LitLen) + int64(s.MatchLen)
		if g > int64(B-min(W, written)) {
			return name + "|seqlen>B-W"
		}
		return name + "|seqlen<=B-W"
	}
	return name + "|trailing"
}

func decKey(n *DecNode) engine.Key {
	b := &n.Buf
	var w []byte
	w = binary.LittleEndian.AppendUint32(w, uint32(b.BufferSize))
	w = binary.LittleEndian.AppendUint32(w, uint32(cap(b.Data)))
	w = binary.LittleEndian.AppendUint32(w, uint32(len(b.Data)))
	w = binary.LittleEndian.AppendUint32(w, uint32(b.R))
	w = binary.LittleEndian.AppendUint64(w, uint64(b.Off))
	w = binary.LittleEndian.AppendUint32(w, uint32(n.Model.Read))
	w = binary.LittleEndian.AppendUint32(w, uint32(len(n.Model.Out)))
	w = append(w, b.Data...)
	return engine.MakeKey(w)
}

// DecCase is the replayable description of a decoder state machine violation.
type DecCase struct {
	Level      string   `json:"level"` // DecoderBuffer or Decoder
	WindowSize int      `json:"window_size"`
	BufferSize int      `json:"buffer_size"` // as configured (0: default)
	PreCap     int      `json:"pre_cap,omitempty"`
	Path       []uint16 `json:"path"`
	Ops        []string `json:"ops"`
	MaxBytes   int      `json:"max_bytes"`
}

// DecConfig is one decoder geometry.
type DecConfig struct {
	W, B   int
	PreCap int // capacity of a preallocated Data slice handed to Init (0: none)
}

func decInit(c DecConfig, level int) DecNode {
	var b lz.DecoderBuffer
	if c.PreCap > 0 {
		b.Data = make([]byte, 0, c.PreCap)
	}
	if err := b.Init(lz.DecoderConfig{WindowSize: c.W, BufferSize: c.B}); err != nil {
		panic(fmt.Errorf("decoder config %+v rejected: %v", c, err))
	}
	return DecNode{Buf: b, Model: &ref.Dec{W: b.WindowSize}, Level: level}
}

// replayDecPath re-executes a path from the initial state; it returns the
// verdicts of the last operation and the rendered operations.
func replayDecPath(c DecConfig, level int, path []uint16, maxBytes int) (verdicts, []string, error) {
	n := decInit(c, level)
	var ops []string
	var last verdicts
	for i, idx := range path {
		alpha := decAlphabet(&n, level == 1)
		if int(idx) >= len(alpha) {
			return nil, ops, fmt.Errorf("replay divergence: op index %d out of range %d at step %d", idx, len(alpha), i)
		}
		op := alpha[idx]
		ops = append(ops, op.String())
		next, v, ok := applyDecOp(&n, &op)
		last = v
		if !ok && i != len(path)-1 {
			return nil, ops, fmt.Errorf("replay divergence: step %d (%s) left the object unusable", i, op)
		}
		n = next
	}
	return last, ops, nil
}

// runDecBFS explores one configuration and reports verdicts of the properties in props.
func runDecBFS(prop string, props map[string]bool, c DecConfig, level int, depth int, maxBytes int, stateCap int64, st *engine.Stats, col *engine.Collector) {
	init := decInit(c, level)
	lvl := "DecoderBuffer"
	if level == 1 {
		lvl = "Decoder"
	}
	// the nodes of a level are expanded by several goroutines (the shards of this check are few and very unequal)
	workers := max(runtime.NumCPU()/2, 1)
	type wstate struct {
		st          engine.Stats
		distinctOps map[string]struct{}
	}
	ws := make([]wstate, workers)
	for i := range ws {
		ws[i].distinctOps = map[string]struct{}{}
	}
	res := engine.BFSPar(init, depth, stateCap, workers, decKey, func(w int, n *engine.Node[DecNode], emit func(DecNode, uint16)) {
		lst := &ws[w].st
		alpha := decAlphabet(&n.State, level == 1)
		for i := range alpha {
			op := &alpha[i]
			next, v, ok := applyDecOp(&n.State, op)
			lst.Transitions++
			if len(ws[w].distinctOps) < 4096 {
				ws[w].distinctOps[op.String()] = struct{}{}
			}
			for _, x := range v {
				if !props[x.Prop] {
					continue
				}
				sig := x.Prop + "|" + x.Sig
				path := append(append([]uint16(nil), n.Path...), uint16(i))
				var cs any
				if !col.Seen(sig) {
					_, ops, _ := replayDecPath(c, level, path, maxBytes)
					cs = DecCase{Level: lvl, WindowSize: c.W, BufferSize: c.B, PreCap: c.PreCap, Path: path, Ops: ops, MaxBytes: maxBytes}
				}
				col.Report(engine.Violation{Property: prop, Sig: sig, Msg: x.Msg, Case: cs, Rank: int64(len(path))<<20 + int64(c.B)<<10 + int64(c.W)})
			}
			if !ok {
				lst.Pruned++
				continue
			}
			if len(next.Model.Out) > maxBytes {
				lst.Add("pruned_by_byte_volume", 1)
				continue
			}
			emit(next, uint16(i))
		}
	})
	distinctOps := map[string]struct{}{}
	for i := range ws {
		st.Transitions += ws[i].st.Transitions
		st.Pruned += ws[i].st.Pruned
		for k, v := range ws[i].st.Extra {
			st.Add(k, v)
		}
		for k := range ws[i].distinctOps {
			distinctOps[k] = struct{}{}
		}
	}
	st.States += res.States
	st.Execs += res.States // every distinct state was reached by replaying a real path
	if int64(res.Depth) > st.MaxDepth {
		st.MaxDepth = int64(res.Depth)
	}
	st.Add("frontier_states_not_expanded", res.Frontier)
	st.Add("configs", 1)
	st.Nontrivial += int64(len(distinctOps))
	if res.CapHit {
		st.CapsHit = append(st.CapsHit, fmt.Sprintf("%s W=%d B=%d: state cap %d hit at depth %d", lvl, c.W, c.B, stateCap, res.Depth))
	}
	if len(st.Samples) < 2 {
		st.Sample(map[string]any{"level": lvl, "W": c.W, "B": c.B, "states": res.States, "transitions": res.Transitions, "depth": res.Depth})
	}
}

func replayDec(prop string, props map[string]bool, raw json.RawMessage, col *engine.Collector) error {
	var dc DecCase
	if err := json.Unmarshal(raw, &dc); err != nil {
		return err
	}
	level := 0
	if dc.Level == "Decoder" {
		level = 1
	}
	v, ops, err := replayDecPath(DecConfig{W: dc.WindowSize, B: dc.BufferSize, PreCap: dc.PreCap}, level, dc.Path, dc.MaxBytes)
	if err != nil {
		return err
	}
	fmt.Printf("replayed %s W=%d B=%d: %s\n", dc.Level, dc.WindowSize, dc.BufferSize, strings.Join(ops, "; "))
	for _, x := range v {
		if props[x.Prop] {
			col.Report(engine.Violation{Property: prop, Sig: x.Prop + "|" + x.Sig, Msg: x.Msg, Case: dc})
		}
	}
	return nil
}

var _ = io.EOF
