package engine

import (
	"hash/maphash"
	"sync"
	"sync/atomic"
)

// Key is a 128-bit compacted canonical state key (two independent 64-bit
// hashes of the canonical byte form; the probability that two of 10^7 states
// collide is below 10^-24, which we accept instead of storing full keys).
type Key [2]uint64

var seedA, seedB = maphash.MakeSeed(), maphash.MakeSeed()

// MakeKey hashes a canonical byte form.
func MakeKey(b []byte) Key { return Key{maphash.Bytes(seedA, b), maphash.Bytes(seedB, b)} }

// Node is a BFS node: a state plus the operation indexes of the shortest path
// that reached it.
type Node[S any] struct {
	State S
	Path  []uint16
}

// BFSResult reports what a search covered.
type BFSResult struct {
	States      int64
	Transitions int64
	Depth       int   // deepest level completely expanded
	CapHit      bool  // the state cap stopped the search
	Frontier    int64 // states of the last level that were not expanded (depth bound)
}

// BFS runs an explicit-state breadth-first search. expand is called once for
// every distinct state up to maxDepth-1 and must call emit for each successor
// (after applying one operation of the alphabet to a clone of the state). key
// returns the canonical key used for de-duplication. Operations are identified
// by their index in the (state dependent, deterministic) alphabet, so that a
// path can be replayed.
func BFS[S any](init S, maxDepth int, stateCap int64, key func(*S) Key,
	expand func(n *Node[S], emit func(next S, op uint16))) BFSResult {
	var res BFSResult
	seen := map[Key]struct{}{}
	seen[key(&init)] = struct{}{}
	res.States = 1
	level := []*Node[S]{{State: init}}
	for depth := 0; depth < maxDepth && len(level) > 0; depth++ {
		var next []*Node[S]
		for _, n := range level {
			Progress.Add(1)
			if res.CapHit {
				break
			}
			expand(n, func(s S, op uint16) {
				res.Transitions++
				k := key(&s)
				if _, ok := seen[k]; ok {
					return
				}
				if res.States >= stateCap {
					res.CapHit = true
					return
				}
				seen[k] = struct{}{}
				res.States++
				p := make([]uint16, len(n.Path)+1)
				copy(p, n.Path)
				p[len(n.Path)] = op
				next = append(next, &Node[S]{State: s, Path: p})
			})
		}
		if res.CapHit {
			break
		}
		res.Depth = depth + 1
		level = next
	}
	res.Frontier = int64(len(level))
	return res
}

// BFSPar is BFS with the nodes of a level expanded by several goroutines.
// expand is called concurrently with a worker index in [0,workers); everything
// it touches besides its arguments must be indexed by that worker. Successors
// are merged in node order, so the result (states, paths, depth) is the same as
// with the sequential search.
func BFSPar[S any](init S, maxDepth int, stateCap int64, workers int, key func(*S) Key,
	expand func(w int, n *Node[S], emit func(next S, op uint16))) BFSResult {
	if workers < 1 {
		workers = 1
	}
	type cand struct {
		s      S
		k      Key
		op     uint16
		parent int32
	}
	var res BFSResult
	seen := map[Key]struct{}{}
	seen[key(&init)] = struct{}{}
	res.States = 1
	level := []*Node[S]{{State: init}}
	const chunk = 32
	for depth := 0; depth < maxDepth && len(level) > 0; depth++ {
		nchunks := (len(level) + chunk - 1) / chunk
		cands := make([][]cand, nchunks)
		trans := make([]int64, nchunks)
		var next atomic.Int64
		var wg sync.WaitGroup
		for w := 0; w < min(workers, nchunks); w++ {
			wg.Add(1)
			go func(w int) {
				defer wg.Done()
				for {
					c := int(next.Add(1)) - 1
					if c >= nchunks {
						return
					}
					local := map[Key]struct{}{}
					lo, hi := c*chunk, min((c+1)*chunk, len(level))
					for i := lo; i < hi; i++ {
						n := level[i]
						Progress.Add(1)
						expand(w, n, func(s S, op uint16) {
							trans[c]++
							if trans[c]&1023 == 0 {
								Progress.Add(1)
							}
							k := key(&s)
							if _, ok := seen[k]; ok { // seen is read-only while a level is expanded
								return
							}
							if _, ok := local[k]; ok {
								return
							}
							local[k] = struct{}{}
							cands[c] = append(cands[c], cand{s, k, op, int32(i)})
						})
					}
				}
			}(w)
		}
		wg.Wait()
		var nextLevel []*Node[S]
		for c := range cands {
			res.Transitions += trans[c]
			Progress.Add(1) // merging is progress too (a level of a large search is merged for minutes)
			for _, x := range cands[c] {
				if _, ok := seen[x.k]; ok {
					continue
				}
				if res.States >= stateCap {
					res.CapHit = true
					break
				}
				seen[x.k] = struct{}{}
				res.States++
				pp := level[x.parent].Path
				p := make([]uint16, len(pp)+1)
				copy(p, pp)
				p[len(pp)] = x.op
				nextLevel = append(nextLevel, &Node[S]{State: x.s, Path: p})
			}
			cands[c] = nil
			if res.CapHit {
				break
			}
		}
		if res.CapHit {
			break
		}
		res.Depth = depth + 1
		level = nextLevel
	}
	res.Frontier = int64(len(level))
	return res
}
