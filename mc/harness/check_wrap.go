package harness

import (
	"bytes"
	"encoding/hex"
	"encoding/json"
	"errors"
	"fmt"
	"io"
	"strings"

	"github.com/ulikunitz/lz"
	"verif/mc/engine"
	"verif/mc/ref"
)

// ---- C08: Wrap streams a reader completely (wrapfault) ----

var errScriptedReader = errors.New("scripted reader: injected error")

// wrapReader is the environment of a WrappedParser: every Read call is a
// choice point. Alternative 0 fills p as far as data remains (plain io.EOF when
// nothing remains). Deviations: short reads of 1 or 2 bytes, (0,nil), the
// remaining data together with io.EOF, (0,err) and (1,err) with a transient
// error (the reader continues afterwards).
type wrapReader struct {
	c          *engine.Chooser
	data       []byte
	pos        int
	errDev     int // error deviations taken
	chunkDev   int // chunking deviations taken
	zeroRun    int
	callsInOp  int
	errsInOp   int
	eofGiven   bool
	noErrors   bool // do not offer error deviations
	noChunking bool
}

const (
	raDefault = iota
	raShort1
	raShort2
	raZero
	raDataEOF
	raErr0
	raErr1
)

func (r *wrapReader) Read(p []byte) (int, error) {
	r.callsInOp++
	if r.callsInOp > len(r.data)+24 {
		panic(progressPanic{"WrappedParser.Parse keeps calling the reader"})
	}
	rem := r.data[r.pos:]
	if r.eofGiven {
		// after io.EOF the reader stays at EOF
		return 0, io.EOF
	}
	var alts [8]int
	na := 0
	add := func(a int) { alts[na] = a; na++ }
	add(raDefault)
	m := min(len(p), len(rem))
	if !r.noChunking {
		if m > 1 {
			add(raShort1)
		}
		if m > 2 {
			add(raShort2)
		}
		if r.zeroRun < 2 {
			add(raZero)
		}
		if len(rem) > 0 && len(rem) <= len(p) {
			add(raDataEOF)
		}
	}
	if !r.noErrors {
		add(raErr0)
		if m >= 1 {
			add(raErr1)
		}
	}
	a := alts[r.c.Choose(na)]
	give := func(k int) int {
		copy(p, rem[:k])
		r.pos += k
		return k
	}
	if a != raZero {
		r.zeroRun = 0
	}
	switch a {
	case raDefault:
		if m == 0 {
			if len(rem) == 0 {
				r.eofGiven = true
				return 0, io.EOF
			}
			return 0, nil // empty p
		}
		return give(m), nil
	case raShort1:
		r.chunkDev++
		return give(1), nil
	case raShort2:
		r.chunkDev++
		return give(2), nil
	case raZero:
		r.chunkDev++
		r.zeroRun++
		return 0, nil
	case raDataEOF:
		r.chunkDev++
		r.eofGiven = true
		return give(len(rem)), io.EOF
	case raErr0:
		r.errDev++
		r.errsInOp++
		return 0, errScriptedReader
	default:
		r.errDev++
		r.errsInOp++
		return give(1), errScriptedReader
	}
}

// WEv is one successful WrappedParser.Parse observation.
type WEv struct {
	Flags int
	N     int
	Seqs  []lz.Seq
	Lits  []byte
}

func wevEqual(a, b []WEv) (int, bool) {
	for i := 0; i < len(a) && i < len(b); i++ {
		if a[i].Flags != b[i].Flags || a[i].N != b[i].N || !seqsEqual(a[i].Seqs, b[i].Seqs) || !bytes.Equal(a[i].Lits, b[i].Lits) {
			return i, false
		}
	}
	if len(a) != len(b) {
		return min(len(a), len(b)), false
	}
	return 0, true
}

// WCase is the replayable description of a C08 execution.
type WCase struct {
	Kind    string `json:"kind"`
	Cfg     string `json:"cfg"`
	Input   string `json:"input_hex"`
	Text    string `json:"input_text,omitempty"`
	NTL     bool   `json:"offer_no_trailing_literals"`
	Reset   bool   `json:"offer_reset"`
	Choices []int  `json:"choices"`
	Log     string `json:"log,omitempty"`
}

type wrapRun struct {
	st    *engine.Stats
	col   *engine.Collector
	prop  string
	pc    PCfg
	cfg   lz.ParserConfig
	input []byte
	ntl   bool
	reset bool
	c     *engine.Chooser
	log   []byte
	trace []WEv
	// cache of the deviation-free reference trace with flags 0 for (pc, input)
	refFor   string
	refTrace []WEv
	outcomes map[uint64]struct{}
	track    bool
}

func (r *wrapRun) fail(sig, format string, a ...any) {
	if r.prop == "C16" && !(strings.HasPrefix(sig, "panic") || sig == "spin" || sig == "error") {
		return // the stream properties are C08's; C16 judges panics, spins and undocumented errors
	}
	full := r.prop + "|" + r.pc.Kind + "|" + sig
	var cs any
	if !r.col.Seen(full) {
		cs = WCase{Kind: r.pc.Kind, Cfg: r.pc.JSON, Input: hex.EncodeToString(r.input), Text: printable(r.input), NTL: r.ntl, Reset: r.reset, Choices: r.c.Choices(), Log: string(r.log)}
	}
	r.col.Report(engine.Violation{Property: r.prop, Sig: full, Msg: fmt.Sprintf(format, a...), Case: cs,
		Rank: int64(r.c.Deviations())<<40 + int64(len(r.input))<<20 + int64(len(r.c.Cs))})
}

// plainTrace runs a fresh wrapped parser over the input with a reader that
// always fills the slice, using the given flags per Parse call.
func plainTrace(cfg lz.ParserConfig, input []byte, flags []int) []WEv {
	p, err := cfg.NewParser()
	if err != nil {
		panic(err)
	}
	wp := lz.Wrap(bytes.NewReader(input), p)
	var out []WEv
	var blk lz.Block
	for i := 0; i < 2*len(input)+8; i++ {
		f := 0
		if i < len(flags) {
			f = flags[i]
		}
		n, err := wp.Parse(&blk, f)
		if err != nil {
			break
		}
		out = append(out, WEv{Flags: f, N: n, Seqs: append([]lz.Seq(nil), blk.Sequences...), Lits: append([]byte(nil), blk.Literals...)})
	}
	return out
}

func (r *wrapRun) run(c *engine.Chooser) {
	r.c = c
	r.log = r.log[:0]
	r.trace = r.trace[:0]
	r.st.Execs++
	in := r.input
	p, err := r.cfg.NewParser()
	if err != nil {
		panic(err)
	}
	rd := &wrapReader{c: c, data: in}
	wp := lz.Wrap(rd, p)
	defer func() {
		if x := recover(); x != nil {
			if pp, ok := x.(progressPanic); ok {
				r.fail("spin", "%s (input %q)", pp.msg, in)
				return
			}
			if _, ok := x.(engine.ReplayDivergence); ok {
				panic(x)
			}
			r.fail("panic|"+panicClass(x), "WrappedParser.Parse panicked: %v", x)
		}
	}()
	var blk lz.Block
	var hist []byte // bytes delivered since the last Reset
	eofs := 0
	resets := 0
	flagsUsed := false
	var flagSeq []int
	limit := 2*len(in) + 24
	for call := 0; call < limit; call++ {
		na := 1
		if r.ntl {
			na++
		}
		if r.reset && resets == 0 && call > 0 {
			na++
		}
		a := c.Choose(na)
		flags := 0
		if r.ntl && a == 1 {
			flags = lz.NoTrailingLiterals
			flagsUsed = true
		} else if a > 0 {
			// WrappedParser.Reset with a reader that restarts the input
			rd = &wrapReader{c: c, data: in}
			wp.Reset(rd)
			r.st.Transitions++
			r.log = append(r.log, "Reset "...)
			hist = hist[:0]
			eofs = 0
			resets++
			r.trace = r.trace[:0]
			flagSeq = flagSeq[:0]
			continue
		}
		rd.callsInOp, rd.errsInOp = 0, 0
		n, err := wp.Parse(&blk, flags)
		r.st.Transitions++
		r.log = append(r.log, fmt.Sprintf("Parse(%d)=%d,%v ", flags, n, err)...)
		switch {
		case err == nil:
			if eofs > 0 {
				r.fail("eof-not-sticky", "Parse returned n=%d nil after io.EOF had been returned", n)
				return
			}
			if n < 1 || len(hist)+n > rd.pos {
				r.fail("n-range", "Parse returned n=%d, nil with %d bytes read from the reader and %d delivered", n, rd.pos, len(hist))
				return
			}
			out, _, _, xerr := ref.Expand(hist, &blk, 0)
			if xerr != nil {
				r.fail("expand-error", "block %d cannot be expanded: %v", call, xerr)
				return
			}
			if len(out)-len(hist) != n || !bytes.Equal(out[len(hist):], in[len(hist):len(hist)+n]) {
				r.fail("expand-mismatch", "block expands to %q, the reader produced %q at stream position %d (n=%d)", out[len(hist):], in[len(hist):min(len(in), len(hist)+n)], len(hist), n)
				return
			}
			hist = out
			flagSeq = append(flagSeq, flags)
			r.trace = append(r.trace, WEv{Flags: flags, N: n, Seqs: append([]lz.Seq(nil), blk.Sequences...), Lits: append([]byte(nil), blk.Literals...)})
		case err == io.EOF:
			if n != 0 {
				r.fail("eof-n", "io.EOF with n=%d", n)
			}
			if len(hist) != len(in) || rd.pos != len(in) {
				r.fail("eof-early", "io.EOF after %d of %d bytes were delivered (%d read from the reader)", len(hist), len(in), rd.pos)
				return
			}
			eofs++
		case err == errScriptedReader:
			if rd.errsInOp == 0 {
				r.fail("phantom-error", "Parse returned the reader's error although the reader did not fail during this call")
				return
			}
			if n != 0 {
				r.fail("error-n", "reader error returned with n=%d", n)
			}
			if len(hist) != rd.pos {
				r.fail("error-before-delivery", "the reader's error was returned although only %d of the %d bytes read before it have been delivered", len(hist), rd.pos)
				return
			}
			if eofs > 0 {
				r.fail("eof-not-sticky", "reader error after io.EOF")
				return
			}
		default:
			if r.prop == "C16" && (err == lz.ErrFullBuffer || err == lz.ErrEmptyBuffer) {
				return // documented errors; with ShrinkSize == BufferSize the stream legitimately cannot continue
			}
			r.fail("error", "WrappedParser.Parse returned undocumented error %v (n=%d)", err, n)
			return
		}
		if eofs >= 4 {
			break
		}
	}
	if eofs < 4 {
		r.fail("no-eof", "io.EOF was not reached (and repeated) within %d Parse calls; %d of %d bytes delivered", limit, len(hist), len(in))
		return
	}
	// chunk independence: without error deviations the block sequence must be
	// the one of the plain reader (also after WrappedParser.Reset)
	if rd.errDev == 0 {
		var want []WEv
		if !flagsUsed {
			if r.refFor != r.pc.JSON+string(in) || r.refTrace == nil {
				r.refTrace = plainTrace(r.cfg, in, nil)
				r.refFor = r.pc.JSON + string(in)
			}
			want = r.refTrace
		} else {
			want = plainTrace(r.cfg, in, flagSeq)
		}
		if i, ok := wevEqual(r.trace, want); !ok {
			sig := "chunk-dependence"
			if resets > 0 && rd.chunkDev == 0 {
				sig = "reset-differs"
			}
			r.fail(sig, "block %d differs from the block sequence obtained with a reader that fills every slice: got %+v, want %+v", i, at(r.trace, i), at(want, i))
		}
	}
	if r.track {
		h := inputKey(in)
		for _, x := range c.Cs {
			h = (h ^ uint64(x+1)) * 1099511628211
		}
		for _, e := range r.trace {
			h = (h ^ uint64(e.N)<<8 ^ uint64(len(e.Seqs))) * 1099511628211
		}
		r.outcomes[h] = struct{}{}
	}
}

func at(t []WEv, i int) any {
	if i < len(t) {
		return t[i]
	}
	return "(no block)"
}

func wrapLayers(tier string) []Layer {
	sa := []string{"GSAP", "OSAP"}
	if tier == "thorough" {
		return []Layer{
			{Name: "hash-b1", Kinds: HashKinds, BufSizes: []int{1, 2, 3, 5, 8}, Level: 0, Inputs: Union(Binary(9), ZeroA(5)), Bound: 1},
			{Name: "hash-b2", Kinds: HashKinds, BufSizes: []int{2, 3, 5}, Level: 2, Inputs: Binary(6), Bound: 2},
			{Name: "hash-b3", Kinds: HashKinds, BufSizes: []int{3}, Level: 2, Inputs: Binary(5), Bound: 3},
			{Name: "hash-long", Kinds: HashKinds, BufSizes: []int{16, 40}, Level: 2, Inputs: StructuredSet(17, 40, 81), Bound: 1},
			{Name: "sa-b1", Kinds: sa, BufSizes: []int{2, 3, 5}, Level: 0, Inputs: Binary(6), Bound: 1},
			{Name: "sa-b2", Kinds: sa, BufSizes: []int{3}, Level: 0, Inputs: Binary(5), Bound: 2},
			{Name: "large", Kinds: Kinds, CfgsFn: largeConfigs, Inputs: Union(LargeSet(140000), LargeSet(200003)), Bound: 1, CfgPerShard: 1},
		}
	}
	return []Layer{
		{Name: "large", Kinds: HashKinds, CfgsFn: largeConfigs, Inputs: LargeSet(140000), Bound: 1, CfgPerShard: 1},
		{Name: "large-sa", Kinds: []string{"GSAP", "OSAP"}, CfgsFn: largeConfigs, Inputs: LargeSet(70000), Bound: 0, CfgPerShard: 1},
		{Name: "hash-b1", Kinds: HashKinds, BufSizes: []int{1, 2, 3, 5, 8}, Level: 2, Inputs: Union(Binary(6), ZeroA(3)), Bound: 1},
		{Name: "hash-b2", Kinds: HashKinds, BufSizes: []int{2, 3}, Level: 2, Inputs: Binary(4), Bound: 2},
		{Name: "hash-long", Kinds: HashKinds, BufSizes: []int{16}, Level: 2, Inputs: FewLong(33), Bound: 1},
		{Name: "sa-b1", Kinds: sa, BufSizes: []int{2, 3}, Level: 0, Inputs: Binary(5), Bound: 1},
	}
}

func wrapShards(prop string, tier string) []engine.Shard {
	var shards []engine.Shard
	for _, l := range wrapLayers(tier) {
		l := l
		geo := Geometry(l.BufSizes)
		for _, kind := range l.Kinds {
			cfgs := Configs(kind, geo, l.Level)
			if l.CfgsFn != nil {
				cfgs = nil
				for _, c := range l.CfgsFn() {
					if c.Kind == kind {
						cfgs = append(cfgs, c)
					}
				}
			}
			per := 24
			if l.CfgPerShard > 0 {
				per = l.CfgPerShard
			}
			for lo := 0; lo < len(cfgs); lo += per {
				part := cfgs[lo:min(lo+per, len(cfgs))]
				shards = append(shards, engine.Shard{
					Name: fmt.Sprintf("%s/%s/%s/cfg%d", prop, l.Name, kind, lo),
					Run: func(st *engine.Stats, col *engine.Collector) {
						r := &wrapRun{st: st, col: col, prop: prop, ntl: true, reset: true, track: true}
						for _, pc := range part {
							r.pc = pc
							r.cfg = pc.Config()
							r.outcomes = map[uint64]struct{}{}
							l.Inputs.Each(func(in []byte) {
								st.SetNote(fmt.Sprintf("Wrap %s %s input %q", pc.Kind, pc.JSON, in))
								r.input = in
								before := len(r.outcomes)
								ex, pts := engine.Explore(l.Bound, r.run)
								st.Points += pts
								st.Add("execs_"+l.Name, ex)
								if len(r.outcomes) > before {
									st.Nontrivial++
								}
								if len(st.Samples) < 2 && len(in) >= 5 {
									st.Sample(WCase{Kind: pc.Kind, Cfg: pc.JSON, Input: hex.EncodeToString(in), Text: printable(in), NTL: true, Reset: true, Choices: r.c.Choices(), Log: string(r.log)})
								}
							})
							st.Outcomes += int64(len(r.outcomes))
							st.States += int64(len(r.outcomes))
							st.Add("configs", 1)
						}
					},
				})
			}
		}
	}
	return shards
}

func replayWrap(prop string, raw json.RawMessage, col *engine.Collector) error {
	var wc WCase
	if err := json.Unmarshal(raw, &wc); err != nil {
		return err
	}
	in, err := hex.DecodeString(wc.Input)
	if err != nil {
		return err
	}
	var st engine.Stats
	pc := PCfg{Kind: wc.Kind, JSON: wc.Cfg}
	r := &wrapRun{st: &st, col: col, prop: prop, pc: pc, cfg: pc.Config(), input: in, ntl: wc.NTL, reset: wc.Reset}
	var c engine.Chooser
	c.Reset(wc.Choices)
	r.run(&c)
	if len(c.Cs) < len(wc.Choices) {
		return fmt.Errorf("replay met %d choice points, recorded %d", len(c.Cs), len(wc.Choices))
	}
	fmt.Printf("replayed %s %s input %q: %s\n", wc.Kind, wc.Cfg, in, r.log)
	return nil
}

func init() {
	register(&Check{
		ID:     "C08",
		Shards: func(tier string) []engine.Shard { return wrapShards("C08", tier) },
		Replay: func(raw json.RawMessage, col *engine.Collector) error { return replayWrap("C08", raw, col) },
		Bounds: func(tier string) map[string]any {
			m := layerBounds(wrapLayers(tier))
			m["reader_answers"] = "fill the slice (plain io.EOF at the end) | 1-byte read | 2-byte read | (0,nil) (at most twice in a row) | remaining data together with io.EOF | (0,err) | (1,err); the reader continues after an error and stays at io.EOF once it has returned it"
			m["caller_choices"] = "per Parse call: flags 0 | NoTrailingLiterals | (once) WrappedParser.Reset with a reader that restarts the input"
			return m
		},
		Rule:        "cases are (configuration, input, choice sequence over reader answers and caller flags); distinct_nontrivial counts (configuration, input) pairs whose exploration produced an outcome (choices + block lengths) not seen before for that configuration",
		Explanation: "WrappedParser over a scripted reader: delivered blocks expand to exactly the bytes read so far; a reader error is returned only when everything read has been delivered; io.EOF has n=0, comes after the whole input and is sticky; without error deviations the block sequence equals that of a reader that fills every slice (chunk independence), also after WrappedParser.Reset",
		StatesNote:  "states = distinct outcomes (choice sequence + delivered block lengths) per configuration; transition = one WrappedParser.Parse/Reset call on the real code",
		Assumptions: []string{"ShrinkSize < BufferSize (the property's precondition)", "a reader that has returned io.EOF keeps returning it", "inputs and configurations bounded as stated"},
	})
}
