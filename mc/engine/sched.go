package engine

// Cooperative scheduler: threads are goroutines that run one at a time and give
// up control only inside yield(). Every scheduling decision is a choice point
// of a Chooser, so Explore enumerates interleavings; alternative 0 always
// continues the running thread (or, when it has finished, the runnable thread
// with the smallest id), every other alternative is a context switch.

type schedThread struct {
	resume chan struct{}
	done   bool
}

// RunThreads runs the thread bodies to completion under the schedule dictated
// by c and returns the sequence of thread ids in the order they were resumed.
// A body receives its yield function and must call it at every scheduling
// point it wants to expose.
func RunThreads(c *Chooser, bodies []func(yield func())) []int {
	n := len(bodies)
	ths := make([]*schedThread, n)
	back := make(chan int) // a thread reports: yielded (id) or finished (-id-1)
	for i := range bodies {
		t := &schedThread{resume: make(chan struct{})}
		ths[i] = t
		i := i
		go func() {
			<-t.resume
			bodies[i](func() {
				back <- i
				<-t.resume
			})
			back <- -i - 1
		}()
	}
	var order []int
	cur := -1
	alive := n
	var enabled []int
	for alive > 0 {
		enabled = enabled[:0]
		if cur >= 0 && !ths[cur].done {
			enabled = append(enabled, cur)
		}
		for i, t := range ths {
			if !t.done && i != cur {
				enabled = append(enabled, i)
			}
		}
		pick := enabled[c.Choose(len(enabled))]
		cur = pick
		order = append(order, pick)
		ths[pick].resume <- struct{}{}
		r := <-back
		if r < 0 {
			ths[-r-1].done = true
			alive--
		}
	}
	return order
}

// Sched is the inline variant of the cooperative scheduler for fine-grained
// scheduling points (loop-level yields): the running thread consults the
// chooser itself and only blocks when the decision is to switch. Alternative 0
// at a yield point continues the running thread, every other alternative is a
// preemption; Explore's deviation bound therefore is a preemption bound
// (choices made when a thread has finished count as well when they do not
// take the runnable thread with the smallest id).
type Sched struct {
	c       *Chooser
	resume  []chan struct{}
	done    []bool
	cur     int
	fin     chan struct{}
	Yields  int64
	Switch  int64
	enabled []int
	panicV  any
}

// Yield is the scheduling point. It must only be called by the running thread.
func (s *Sched) Yield() {
	s.Yields++
	me := s.cur
	s.enabled = s.enabled[:0]
	s.enabled = append(s.enabled, me)
	for i, d := range s.done {
		if !d && i != me {
			s.enabled = append(s.enabled, i)
		}
	}
	k := s.c.Choose(len(s.enabled))
	if k == 0 {
		return
	}
	next := s.enabled[k]
	s.Switch++
	s.cur = next
	s.resume[next] <- struct{}{}
	<-s.resume[me]
}

// RunInline runs the bodies under the schedule dictated by c. install is
// called with the yield function before the first thread starts and with nil
// after the last one has finished. A panic in a body is re-raised in the caller
// after all other threads have been released.
func RunInline(c *Chooser, bodies []func(), install func(yield func())) *Sched {
	n := len(bodies)
	s := &Sched{c: c, resume: make([]chan struct{}, n), done: make([]bool, n), fin: make(chan struct{})}
	for i := range bodies {
		s.resume[i] = make(chan struct{})
	}
	finish := func(me int) {
		s.done[me] = true
		s.enabled = s.enabled[:0]
		for i, d := range s.done {
			if !d {
				s.enabled = append(s.enabled, i)
			}
		}
		if len(s.enabled) == 0 {
			close(s.fin)
			return
		}
		next := s.enabled[0]
		if s.panicV == nil {
			next = s.enabled[c.Choose(len(s.enabled))]
		}
		s.cur = next
		s.resume[next] <- struct{}{}
	}
	for i := range bodies {
		i := i
		go func() {
			<-s.resume[i]
			defer func() {
				if r := recover(); r != nil && s.panicV == nil {
					s.panicV = r
				}
				finish(i)
			}()
			if s.panicV == nil {
				bodies[i]()
			}
		}()
	}
	install(s.Yield)
	first := c.Choose(n)
	s.cur = first
	s.resume[first] <- struct{}{}
	<-s.fin
	install(nil)
	if s.panicV != nil {
		panic(s.panicV)
	}
	return s
}
