package harness

import (
	"bytes"
	"encoding/binary"
	"encoding/json"
	"errors"
	"fmt"
	"io"
	"strings"

	"github.com/ulikunitz/lz"
	"verif/mc/engine"
)

// PBNode is a state of the ParserBuffer state machine: the real object and the
// list-of-bytes model.
type PBNode struct {
	B      lz.ParserBuffer
	Stream []byte // bytes fed since the last Reset
	Off    int    // model: absolute offset of the first retained byte
	Pos    int    // model: absolute parse position
	Next   int    // counter that determines the content of the bytes fed next
}

// PBOp is one operation of the ParserBuffer alphabet.
type PBOp struct {
	Kind   string `json:"kind"` // Write ReadFrom Parse Shrink Reset
	N      int    `json:"n,omitempty"`
	Script string `json:"script,omitempty"` // reader script
	Cap    int    `json:"cap,omitempty"`    // extra capacity of Reset data
	Nil    bool   `json:"nil,omitempty"`
}

func (o PBOp) String() string {
	switch o.Kind {
	case "Write", "Parse":
		return fmt.Sprintf("%s(%d)", o.Kind, o.N)
	case "ReadFrom":
		return fmt.Sprintf("ReadFrom(%s,%d bytes)", o.Script, o.N)
	case "Reset":
		if o.Nil {
			return "Reset(nil)"
		}
		return fmt.Sprintf("Reset(len %d,cap+%d)", o.N, o.Cap)
	}
	return o.Kind
}

func clonePB(b *lz.ParserBuffer) lz.ParserBuffer {
	c := *b
	c.Data = make([]byte, len(b.Data), cap(b.Data))
	copy(c.Data[:cap(c.Data)], b.Data[:cap(b.Data)])
	return c
}

func pbByte(i int) byte { return 'A' + byte(i%23) }

var errScript = errors.New("scripted reader error")

// scriptReader implements the reader scripts of C15/C08.
type scriptReader struct {
	data   []byte
	script string
	given  []byte
	calls  int
	failed bool
	idle   int
}

func (r *scriptReader) Read(p []byte) (int, error) {
	r.calls++
	if r.calls > 200 {
		panic(progressPanic{"reader called more than 200 times in one ReadFrom"})
	}
	give := func(n int) int {
		n = min(n, len(p), len(r.data))
		copy(p, r.data[:n])
		r.given = append(r.given, r.data[:n]...)
		r.data = r.data[n:]
		return n
	}
	switch r.script {
	case "err-first":
		if !r.failed {
			r.failed = true
			return 0, errScript
		}
	case "data+err":
		if !r.failed {
			r.failed = true
			return give(1), errScript
		}
	}
	if len(r.data) == 0 {
		return 0, io.EOF
	}
	if len(p) == 0 {
		r.idle++
		if r.idle > 4 {
			panic(progressPanic{"reader called with an empty slice again and again"})
		}
		return 0, nil
	}
	switch r.script {
	case "byte":
		return give(1), nil
	case "data+eof":
		n := give(len(p))
		if len(r.data) == 0 {
			return n, io.EOF
		}
		return n, nil
	}
	return give(len(p)), nil
}

func pbAlphabet(n *PBNode) []PBOp {
	b := &n.B
	avail := b.BufferSize - len(b.Data)
	var ops []PBOp
	seen := map[int]bool{}
	for _, k := range []int{0, 1, 2, avail - 1, avail, avail + 1} {
		if k < 0 || seen[k] {
			continue
		}
		seen[k] = true
		ops = append(ops, PBOp{Kind: "Write", N: k})
	}
	seen = map[int]bool{}
	for _, k := range []int{0, 1, avail - 1, avail, avail + 1, avail + 40} {
		if k < 0 || seen[k] {
			continue
		}
		seen[k] = true
		for _, s := range []string{"plain", "byte", "data+eof", "err-first", "data+err"} {
			if k == 0 && s != "plain" && s != "err-first" {
				continue
			}
			ops = append(ops, PBOp{Kind: "ReadFrom", N: k, Script: s})
		}
	}
	unparsed := len(b.Data) - b.W
	seen = map[int]bool{}
	for _, k := range []int{1, 2, unparsed} {
		if k < 1 || k > unparsed || seen[k] {
			continue
		}
		seen[k] = true
		ops = append(ops, PBOp{Kind: "Parse", N: k})
	}
	ops = append(ops, PBOp{Kind: "Shrink"}, PBOp{Kind: "Reset", Nil: true})
	for _, k := range []int{0, 1, b.BufferSize, b.BufferSize + 1} {
		for _, c := range []int{0, 7, 64} {
			ops = append(ops, PBOp{Kind: "Reset", N: k, Cap: c})
		}
	}
	return ops
}

// pbProbe compares every read accessor with the model.
func pbProbe(p interface {
	ReadAt(p []byte, off int64) (int, error)
	ByteAt(off int64) (byte, error)
}, peek func(n int, off int64) ([]byte, error), stream []byte, off int, v *verdicts, site string) {
	retained := stream[off:]
	l := len(retained)
	defer func() {
		if r := recover(); r != nil {
			v.add("C15", site+"|probe-panic", "read accessor panicked: %v (Off=%d len=%d)", r, off, l)
		}
	}()
	// ... and the same positions 2^32 bytes further on / back (a 32-bit difference would wrap to a retained offset)
	for _, x := range []int{off - 1, off, off + 1, off + l - 1, off + l, off + l + 1, off + 1<<32, off + 1<<32 + l - 1, off + 1<<32 + l, off - 1<<32, off - 1<<32 + l - 1} {
		i := x - off
		inside := i >= 0 && i < l
		// ByteAt
		probe := "ByteAt"
		c, err := p.ByteAt(int64(x))
		switch {
		case inside:
			if err != nil || c != retained[i] {
				v.add("C15", site+"|byteat-inside", "ByteAt(%d) = %q,%v; model byte %q (Off=%d len=%d)", x, c, err, retained[i], off, l)
			}
		case i == l:
			if err != lz.ErrEndOfBuffer {
				v.add("C15", site+"|byteat-end", "ByteAt(%d) exactly at the end returned %v, want ErrEndOfBuffer (Off=%d len=%d)", x, err, off, l)
			}
		default:
			if err != lz.ErrOutOfBuffer {
				v.add("C15", site+"|byteat-outside", "ByteAt(%d) outside [%d,%d) returned %v, want ErrOutOfBuffer", x, off, off+l, err)
			}
		}
		_ = probe
		for _, k := range []int{0, 1, 2, l, l + 1} {
			q := make([]byte, k)
			nn, err := p.ReadAt(q, int64(x))
			if !inside {
				if err != lz.ErrOutOfBuffer || nn != 0 {
					v.add("C15", site+"|readat-outside", "ReadAt(len %d, off %d) outside [%d,%d) returned n=%d err=%v, want 0, ErrOutOfBuffer", k, x, off, off+l, nn, err)
				}
			} else {
				want := retained[i:]
				var wantErr error
				if len(want) < k {
					wantErr = lz.ErrEndOfBuffer
				} else {
					want = want[:k]
				}
				if nn != len(want) || err != wantErr || !bytes.Equal(q[:max(min(nn, k), 0)], want) {
					v.add("C15", site+"|readat-inside", "ReadAt(len %d, off %d) returned n=%d err=%v data %q; want n=%d err=%v data %q (Off=%d len=%d)", k, x, nn, err, q[:max(min(nn, k), 0)], len(want), wantErr, want, off, l)
				}
			}
			if peek != nil {
				pp, err := peek(k, int64(x))
				if !inside {
					if err != lz.ErrOutOfBuffer {
						v.add("C15", site+"|peekat-outside", "PeekAt(%d, %d) outside returned err=%v", k, x, err)
					}
				} else {
					var wantErr error
					if l-i < k {
						wantErr = lz.ErrEndOfBuffer
					}
					if err != wantErr || len(pp) < min(k, l-i) || !bytes.Equal(pp[:min(k, l-i)], retained[i:i+min(k, l-i)]) {
						v.add("C15", site+"|peekat-inside", "PeekAt(%d, %d) returned %q err=%v; want %q err=%v", k, x, pp, err, retained[i:i+min(k, l-i)], wantErr)
					}
				}
			}
		}
	}
}

func applyPBOp(n *PBNode, op *PBOp) (next PBNode, v verdicts, ok bool) {
	next = PBNode{B: clonePB(&n.B), Stream: append([]byte(nil), n.Stream...), Off: n.Off, Pos: n.Pos, Next: n.Next}
	b := &next.B
	ok = true
	site := "ParserBuffer." + op.Kind
	defer func() {
		if r := recover(); r != nil {
			ok = false
			v.add("C15", site+"|panic", "%s panicked: %v", op, r)
		}
	}()
	B := b.BufferSize
	bufLen := len(next.Stream) - next.Off
	mk := func(k int) []byte {
		p := make([]byte, k)
		for i := range p {
			p[i] = pbByte(next.Next + i)
		}
		return p
	}
	switch op.Kind {
	case "Write":
		p := mk(op.N)
		k, err := b.Write(p)
		want := min(len(p), B-bufLen)
		if k != want {
			v.add("C15", site+"|n", "Write(%d bytes) with %d of %d bytes buffered returned n=%d, want %d", len(p), bufLen, B, k, want)
			ok = false
			return
		}
		if (err == lz.ErrFullBuffer) != (k < len(p)) || (err != nil && err != lz.ErrFullBuffer) {
			v.add("C15", site+"|err", "Write(%d bytes) stored %d and returned err=%v", len(p), k, err)
		}
		next.Stream = append(next.Stream, p[:k]...)
		next.Next += k
	case "ReadFrom":
		r := &scriptReader{data: mk(op.N), script: op.Script}
		k64, err := b.ReadFrom(r)
		k := int(k64)
		if k < 0 || k > len(r.given) {
			v.add("C15", site+"|n-range", "ReadFrom returned n=%d, reader handed out %d bytes", k, len(r.given))
			ok = false
			return
		}
		if k < len(r.given) {
			v.add("C15", site+"|lost", "ReadFrom stored %d of the %d bytes the reader handed out (script %s)", k, len(r.given), op.Script)
		}
		next.Stream = append(next.Stream, r.given[:k]...)
		next.Next += len(r.given)
		full := len(next.Stream)-next.Off >= B
		if err == lz.ErrFullBuffer {
			if !full {
				v.add("C15", site+"|full-not-full", "ReadFrom returned ErrFullBuffer with %d of %d bytes buffered", len(next.Stream)-next.Off, B)
			}
		} else if len(r.data) > 0 && !r.failed {
			// the reader still has data and never failed: only a full buffer may stop ReadFrom
			v.add("C15", site+"|stopped-early", "ReadFrom returned %v although the reader has %d more bytes and the buffer holds %d of %d", err, len(r.data), len(next.Stream)-next.Off, B)
		}
	case "Parse":
		b.W += op.N
		next.Pos += op.N
	case "Shrink":
		w := next.Pos - next.Off
		delta := b.Shrink()
		want := max(0, w-b.ShrinkSize)
		if delta != want {
			v.add("C15", site+"|delta", "Shrink returned %d with %d parsed bytes and ShrinkSize %d, want %d", delta, w, b.ShrinkSize, want)
			ok = false
			return
		}
		next.Off += delta
		if got := b.W; got != min(b.ShrinkSize, w) {
			v.add("C15", site+"|history", "after Shrink %d bytes of history precede the parse position, want min(ShrinkSize=%d, parsed=%d)", got, b.ShrinkSize, w)
		}
	case "Reset":
		var data []byte
		if !op.Nil {
			d := mk(op.N)
			data = make([]byte, len(d), len(d)+op.Cap)
			copy(data, d)
			full := data[:cap(data)]
			for i := len(data); i < len(full); i++ {
				full[i] = 0xA5
			}
		}
		err := b.Reset(data)
		if (err != nil) != (len(data) > B) {
			v.add("C15", site+"|accept", "Reset(len %d) with BufferSize %d returned %v", len(data), B, err)
			ok = false
			return
		}
		if err == nil {
			next.Stream = append([]byte(nil), data...)
			next.Off, next.Pos = 0, 0
			next.Next += len(data)
		}
	}
	// invariants
	if len(b.Data) > B {
		v.add("C15", site+"|over-buffer", "buffer holds %d bytes, BufferSize is %d (after %s)", len(b.Data), B, op)
	}
	if b.Off != int64(next.Off) || b.W != next.Pos-next.Off {
		v.add("C15", site+"|cursor", "Off=%d W=%d, model Off=%d W=%d", b.Off, b.W, next.Off, next.Pos-next.Off)
		ok = false
	}
	pbProbe(b, b.PeekAt, next.Stream, next.Off, &v, site)
	for _, x := range v {
		if strings.Contains(x.Sig, "inside") || strings.Contains(x.Sig, "over-buffer") || strings.Contains(x.Sig, "lost") {
			ok = false
		}
	}
	return
}

func pbKey(n *PBNode) engine.Key {
	b := &n.B
	var w []byte
	w = binary.LittleEndian.AppendUint32(w, uint32(cap(b.Data)))
	w = binary.LittleEndian.AppendUint32(w, uint32(len(b.Data)))
	w = binary.LittleEndian.AppendUint32(w, uint32(b.W))
	w = binary.LittleEndian.AppendUint64(w, uint64(b.Off))
	w = binary.LittleEndian.AppendUint32(w, uint32(n.Next%23))
	w = append(w, b.Data...)
	return engine.MakeKey(w)
}

// PBCase is the replayable description of a ParserBuffer violation.
type PBCase struct {
	BufferSize int      `json:"buffer_size"`
	ShrinkSize int      `json:"shrink_size"`
	Path       []uint16 `json:"path"`
	Ops        []string `json:"ops"`
}

func pbInit(B, S int) PBNode {
	var b lz.ParserBuffer
	if err := b.Init(lz.BufConfig{BufferSize: B, ShrinkSize: S, WindowSize: B, BlockSize: 2}); err != nil {
		panic(err)
	}
	return PBNode{B: b}
}

func replayPBPath(B, S int, path []uint16) (verdicts, []string, error) {
	n := pbInit(B, S)
	var ops []string
	var last verdicts
	for i, idx := range path {
		alpha := pbAlphabet(&n)
		if int(idx) >= len(alpha) {
			return nil, ops, fmt.Errorf("replay divergence at step %d", i)
		}
		op := alpha[idx]
		ops = append(ops, op.String())
		next, v, ok := applyPBOp(&n, &op)
		last = v
		if !ok && i != len(path)-1 {
			return nil, ops, fmt.Errorf("replay divergence: step %d (%s) left the object unusable", i, op)
		}
		n = next
	}
	return last, ops, nil
}

func runPBBFS(B, S, depth int, stateCap int64, st *engine.Stats, col *engine.Collector) {
	init := pbInit(B, S)
	distinctOps := map[string]struct{}{}
	res := engine.BFS(init, depth, stateCap, pbKey, func(n *engine.Node[PBNode], emit func(PBNode, uint16)) {
		alpha := pbAlphabet(&n.State)
		for i := range alpha {
			op := &alpha[i]
			next, v, ok := applyPBOp(&n.State, op)
			st.Transitions++
			distinctOps[op.String()] = struct{}{}
			for _, x := range v {
				sig := "C15|" + x.Sig
				path := append(append([]uint16(nil), n.Path...), uint16(i))
				var cs any
				if !col.Seen(sig) {
					_, ops, _ := replayPBPath(B, S, path)
					cs = PBCase{BufferSize: B, ShrinkSize: S, Path: path, Ops: ops}
				}
				col.Report(engine.Violation{Property: "C15", Sig: sig, Msg: x.Msg, Case: cs, Rank: int64(len(path))<<20 + int64(B)<<10 + int64(S)})
			}
			if !ok {
				st.Pruned++
				continue
			}
			if len(next.Stream) > 200 {
				st.Add("pruned_by_byte_volume", 1)
				continue
			}
			emit(next, uint16(i))
		}
	})
	st.States += res.States
	st.Execs += res.States
	st.Nontrivial += int64(len(distinctOps))
	if int64(res.Depth) > st.MaxDepth {
		st.MaxDepth = int64(res.Depth)
	}
	st.Add("frontier_states_not_expanded", res.Frontier)
	st.Add("bfs_configs", 1)
	if res.CapHit {
		st.CapsHit = append(st.CapsHit, fmt.Sprintf("ParserBuffer B=%d S=%d: state cap %d hit at depth %d", B, S, stateCap, res.Depth))
	}
	if len(st.Samples) < 2 {
		st.Sample(map[string]any{"engine": "bfs", "BufferSize": B, "ShrinkSize": S, "states": res.States, "transitions": res.Transitions, "depth": res.Depth})
	}
}

// OracleC15 is the probe oracle for the parser-history driver: the Parser
// interface of a real parser is compared with the stream model after every
// operation.
func OracleC15() *Oracle {
	probe := func(h *Hist, site string) {
		var v verdicts
		pbProbe(h.P, nil, h.Stream, h.Off, &v, site)
		for _, x := range v {
			h.Fail(x.Sig, "%s", x.Msg)
		}
	}
	return &Oracle{
		Panic: func(h *Hist, r any) {
			h.Fail("Parser|panic", "a parser call panicked: %v (ops %s)", r, h.OpsString())
		},
		Parse: func(h *Hist, ev *ParseEv) {
			if ev.Err == nil {
				probe(h, "Parser.Parse")
			}
		},
		Op: func(h *Hist, name string) {
			switch name {
			case "shrink":
				// the driver has already applied delta to h.Off; check it against the model
				if pb := lz.VerifParserBuffer(h.P); pb != nil {
					if int(pb.Off) != h.Off || pb.W != h.W() || len(pb.Data) != len(h.Buf()) {
						h.Fail("Parser.Shrink|cursor", "after Shrink Off=%d W=%d len=%d; model Off=%d W=%d len=%d", pb.Off, pb.W, len(pb.Data), h.Off, h.W(), len(h.Buf()))
					}
				}
			}
			switch name {
			case "write":
				want := min(h.Last.Arg, h.BC.BufferSize-h.Last.BufLen)
				if h.Last.N != want {
					h.Fail("Parser.Write|n", "Write(%d bytes) with %d of %d bytes buffered returned n=%d, want %d", h.Last.Arg, h.Last.BufLen, h.BC.BufferSize, h.Last.N, want)
				}
				if (h.Last.Err == lz.ErrFullBuffer) != (h.Last.N < h.Last.Arg) || (h.Last.Err != nil && h.Last.Err != lz.ErrFullBuffer) {
					h.Fail("Parser.Write|err", "Write(%d bytes) stored %d and returned err=%v", h.Last.Arg, h.Last.N, h.Last.Err)
				}
			case "readfrom":
				if h.Last.N < h.Last.Given {
					h.Fail("Parser.ReadFrom|lost", "ReadFrom stored %d of the %d bytes the reader handed out", h.Last.N, h.Last.Given)
				}
				full := len(h.Buf()) >= h.BC.BufferSize
				if h.Last.Err == lz.ErrFullBuffer && !full {
					h.Fail("Parser.ReadFrom|full-not-full", "ReadFrom returned ErrFullBuffer with %d of %d bytes buffered", len(h.Buf()), h.BC.BufferSize)
				}
				if h.Last.Err != lz.ErrFullBuffer && h.Last.Given < h.Last.Arg {
					h.Fail("Parser.ReadFrom|stopped-early", "ReadFrom returned %v although the reader has %d more bytes and the buffer holds %d of %d", h.Last.Err, h.Last.Arg-h.Last.Given, len(h.Buf()), h.BC.BufferSize)
				}
			case "shrink":
				want := max(0, h.Last.BufLen-h.BC.ShrinkSize) // BufLen carries W before the call
				if h.Last.N != want {
					h.Fail("Parser.Shrink|delta", "Shrink returned %d with %d parsed bytes buffered and ShrinkSize %d, want %d", h.Last.N, h.Last.BufLen, h.BC.ShrinkSize, want)
				}
			}
			probe(h, "Parser."+name)
			if len(h.Buf()) > h.BC.BufferSize {
				h.Fail("Parser."+name+"|over-buffer", "parser buffers %d bytes, BufferSize is %d", len(h.Buf()), h.BC.BufferSize)
			}
		},
	}
}

func replayPB(raw json.RawMessage, col *engine.Collector) error {
	var pc PBCase
	if err := json.Unmarshal(raw, &pc); err != nil {
		return err
	}
	if pc.BufferSize == 0 {
		return fmt.Errorf("not a ParserBuffer case")
	}
	v, ops, err := replayPBPath(pc.BufferSize, pc.ShrinkSize, pc.Path)
	if err != nil {
		return err
	}
	fmt.Printf("replayed ParserBuffer B=%d S=%d: %s\n", pc.BufferSize, pc.ShrinkSize, strings.Join(ops, "; "))
	for _, x := range v {
		col.Report(engine.Violation{Property: "C15", Sig: "C15|" + x.Sig, Msg: x.Msg, Case: pc})
	}
	return nil
}
