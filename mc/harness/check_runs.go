package harness

import (
	"bytes"
	"fmt"

	"github.com/ulikunitz/lz"
)

// ---- C19 run clause: dedicated layers ----

// RunInputs is the family of run inputs: byte value x run length x non-run
// prefix x suffix.
func RunInputs(lengths []int, values []byte) InputSet {
	return InputSet{fmt.Sprintf("runs c^r, c in %v, r in %v, prefix in {'',x,xy,xyz}, suffix in {'',z} (x,y,z != c); two runs c^r1 x c^r2 x with (r1,r2) in {(33,62),(40,70),(33,97),(65,64)}", values, lengths), func(f func([]byte)) {
		for _, c := range values {
			other := []byte{c ^ 0x55, c ^ 0x33, c ^ 0x0f}
			// two runs of the same byte, each followed by the same other byte: the suffixes of the second run sort
			// next to suffixes of the first one
			for _, rr := range [][2]int{{33, 62}, {40, 70}, {33, 97}, {65, 64}} {
				for _, x := range other[:2] {
					s := bytes.Repeat([]byte{c}, rr[0])
					s = append(s, x)
					s = append(s, bytes.Repeat([]byte{c}, rr[1])...)
					s = append(s, x)
					f(s)
				}
			}
			for _, r := range lengths {
				for pl := 0; pl <= 3; pl++ {
					for sl := 0; sl <= 1; sl++ {
						s := make([]byte, 0, pl+r+sl)
						s = append(s, other[:pl]...)
						for i := 0; i < r; i++ {
							s = append(s, c)
						}
						s = append(s, other[:sl]...)
						f(s)
					}
				}
			}
		}
	}}
}

func runGeos(bufSizes []int) []lz.BufConfig {
	var out []lz.BufConfig
	for _, b := range bufSizes {
		for _, w := range []int{1, 2, 3, b} {
			for _, bl := range []int{32, 33, 40} {
				if bl > b {
					continue
				}
				out = append(out, lz.BufConfig{BufferSize: b, WindowSize: w, BlockSize: bl})
			}
		}
		out = append(out, lz.BufConfig{BufferSize: b, WindowSize: b, BlockSize: 32, ShrinkSize: 1})
	}
	return out
}

// notGSAPWindow1: GSAP only uses offsets below WindowSize, the property
// demands the run clause for it from WindowSize 2 on.
func notGSAPWindow1(pc PCfg) bool {
	if pc.Kind != "GSAP" {
		return true
	}
	bc := pc.Config().BufConfig()
	bc.SetDefaults()
	return bc.WindowSize >= 2
}

// defaultTables replaces the tiny tables by the default table sizes.
func defaultTableConfigs(geos []lz.BufConfig) []PCfg {
	var out []PCfg
	for _, bc := range geos {
		for _, c := range []lz.ParserConfig{&lz.HPConfig{}, &lz.BHPConfig{}, &lz.DHPConfig{}, &lz.BDHPConfig{}, &lz.BUPConfig{}, &lz.GSAPConfig{}, &lz.OSAPConfig{}} {
			c.SetBufConfig(bc)
			kind := map[string]string{"*lz.HPConfig": "HP", "*lz.BHPConfig": "BHP", "*lz.DHPConfig": "DHP", "*lz.BDHPConfig": "BDHP", "*lz.BUPConfig": "BUP", "*lz.GSAPConfig": "GSAP", "*lz.OSAPConfig": "OSAP"}[fmt.Sprintf("%T", c)]
			if pc, ok := mkCfg(kind, c); ok && notGSAPWindow1(pc) {
				out = append(out, pc)
			}
		}
	}
	return out
}

func runLayers(tier string) []Layer {
	menu := Menu{WriteChunks: true, ReadFrom: true, ParseNil: true, StopEarly: true, ShrinkDev: true, Reset: true}
	sa := []string{"GSAP", "OSAP"}
	vals := []byte{0x00, 'a', 0xff}
	if tier == "thorough" {
		var all []int
		for r := 32; r <= 80; r++ {
			all = append(all, r)
		}
		all = append(all, 130, 200)
		return []Layer{
			{Name: "run-hash", Kinds: HashKinds, Geos: runGeos([]int{40, 64, 100}), Level: 1, Inputs: RunInputs(all, vals), Menu: menu, Bound: 1, NoTrack: true},
			{Name: "run-hash-b2", Kinds: HashKinds, Geos: runGeos([]int{40, 100}), Level: 0, Inputs: RunInputs([]int{32, 33, 47, 80, 130}, vals), Menu: menu, Bound: 2, NoTrack: true},
			{Name: "run-sa", Kinds: sa, Geos: runGeos([]int{40, 100}), Level: 1, Inputs: RunInputs([]int{32, 33, 34, 40, 47, 64, 65, 80, 130}, vals), Menu: menu, Bound: 1, CfgFilter: notGSAPWindow1, CfgPerShard: 2},
			{Name: "run-default-tables", Kinds: Kinds, CfgsFn: func() []PCfg { return defaultTableConfigs(runGeos([]int{40, 100})) }, Inputs: RunInputs([]int{32, 33, 47, 65, 130, 200}, vals), Menu: menu, Bound: 1, CfgPerShard: 2, NoTrack: true},
		}
	}
	return []Layer{
		{Name: "run-hash", Kinds: HashKinds, Geos: runGeos([]int{40, 100}), Level: 0, Inputs: RunInputs([]int{32, 33, 34, 40, 47, 64, 65, 80, 130}, vals), Menu: menu, Bound: 1, NoTrack: true},
		{Name: "run-sa", Kinds: sa, Geos: runGeos([]int{40, 100}), Level: 0, Inputs: RunInputs([]int{32, 33, 40, 65, 130}, vals), Menu: menu, Bound: 0, CfgFilter: notGSAPWindow1, CfgPerShard: 2},
		{Name: "run-sa-b1", Kinds: sa, Geos: runGeos([]int{40}), Level: 0, Inputs: RunInputs([]int{33, 47}, []byte{0x00, 'a'}), Menu: menu, Bound: 1, CfgFilter: notGSAPWindow1, CfgPerShard: 2},
		{Name: "run-default-tables", Kinds: Kinds, CfgsFn: func() []PCfg { return defaultTableConfigs(runGeos([]int{100})) }, Inputs: RunInputs([]int{33, 65, 130}, vals), Menu: menu, Bound: 0, CfgPerShard: 2, NoTrack: true},
	}
}
