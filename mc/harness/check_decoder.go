package harness

import (
	"encoding/json"
	"fmt"

	"github.com/ulikunitz/lz"
	"verif/mc/engine"
)

// decConfigs returns the decoder geometries of a tier.
func decConfigs(tier string) []DecConfig {
	maxB := 6
	if tier == "thorough" {
		maxB = 8
	}
	var out []DecConfig
	for b := maxB; b >= 2; b-- { // largest state spaces first: better balance on the worker pool
		for w := 1; w < b; w++ {
			out = append(out, DecConfig{W: w, B: b})
		}
	}
	for _, w := range []int{1, 2, 3, 4} {
		out = append(out, DecConfig{W: w, B: 0}) // default BufferSize = 2*WindowSize
	}
	// Init on a DecoderBuffer that already owns a larger slice raises BufferSize lazily
	out = append(out, DecConfig{W: 2, B: 3, PreCap: 8}, DecConfig{W: 3, B: 4, PreCap: 5})
	// BufferSize above the 8 bytes Go's append allocates first: len(Data) == cap(Data) < BufferSize is reachable
	out = append(out, DecConfig{W: 3, B: 12})
	// one geometry beyond two kilobytes with one byte of slack (decisions that depend on len>>10, KiB thresholds ...)
	out = append(out, DecConfig{W: 2100, B: 2101})
	// every other small (WindowSize, BufferSize) pair that Init ACCEPTS on the tree under test (on the pinned
	// tree there is none: WindowSize < BufferSize is required; a relaxed Verify brings its configurations in)
	have := map[[2]int]bool{}
	for _, c := range out {
		have[[2]int{c.W, c.B}] = true
	}
	for b := 1; b <= 4; b++ {
		for w := 1; w <= 5; w++ {
			if have[[2]int{w, b}] {
				continue
			}
			var probe lz.DecoderBuffer
			if probe.Init(lz.DecoderConfig{WindowSize: w, BufferSize: b}) == nil {
				out = append(out, DecConfig{W: w, B: b})
			}
		}
	}
	return out
}

func decDepth(tier string, level int) (depth int, maxBytes int, stateCap int64) {
	if tier == "thorough" {
		if level == 1 {
			return 5, 64, 2_000_000
		}
		return 5, 64, 2_000_000
	}
	if level == 1 {
		return 5, 48, 1_000_000
	}
	return 4, 48, 1_000_000
}

func decShards(prop string, props map[string]bool, levels []int) func(tier string) []engine.Shard {
	return func(tier string) []engine.Shard {
		var shards []engine.Shard
		for _, level := range levels {
			for _, c := range decConfigs(tier) {
				c, level := c, level
				depth, maxBytes, cap := decDepth(tier, level)
				if c.W == 3 && c.B == 12 {
					if level == 1 {
						continue // this geometry is for the DecoderBuffer level (Read after the capacity has been used up)
					}
					depth = 3
				}
				if c.B > 64 {
					if level == 0 {
						continue // the large geometry is explored at Decoder level only
					}
					depth, maxBytes = 3, 6*c.B
				}
				if tier != "thorough" && level == 1 && (c.B >= 5 || (c.B == 0 && c.W >= 3)) {
					depth-- // the Decoder-level state space of the larger buffers at full depth dominates the quick tier
				}
				shards = append(shards, engine.Shard{
					Name: fmt.Sprintf("%s/level%d/W%d-B%d-pre%d", prop, level, c.W, c.B, c.PreCap),
					Run: func(st *engine.Stats, col *engine.Collector) {
						runDecBFS(prop, props, c, level, depth, maxBytes, cap, st, col)
					},
				})
			}
		}
		return shards
	}
}

func decBounds(levels []int) func(tier string) map[string]any {
	return func(tier string) map[string]any {
		m := map[string]any{}
		var cfgs []string
		for _, c := range decConfigs(tier) {
			cfgs = append(cfgs, fmt.Sprintf("W=%d,B=%d,precap=%d", c.W, c.B, c.PreCap))
		}
		m["configs"] = cfgs
		for _, l := range levels {
			d, mb, sc := decDepth(tier, l)
			name := "DecoderBuffer"
			if l == 1 {
				name = "Decoder"
			}
			m[name] = map[string]any{"depth": d, "max_bytes_written": mb, "state_cap_per_config": sc}
		}
		m["quick_tier_note"] = "Decoder level: one level less for BufferSize >= 5 (and default BufferSize with WindowSize >= 3)"
		m["alphabet"] = "state dependent, ~200 operations: WriteByte; Write of {0,1,2,free-1,free,free+1,B-W,B-W+1,B,B+1} bytes; WriteMatch m in {0,1,2,3,W,W+1,B,2^32-1} x o in {0,1,2,avail-1,avail,avail+1,W,W+1,2^32-1}; WriteBlock over ~130 one- and two-sequence blocks incl. malformed ones (offset 0, offset avail+1, 2^32-1, LitLen beyond literals, short literal slice) and oversized ones; Read {0,1,2,all}; WriteTo/Flush; Reset"
		return m
	}
}

const ruleDec = "explicit-state BFS: every distinct canonical state (BufferSize as raised, cap, len, R, Off, Data bytes, model cursor) up to the depth bound is expanded with the whole alphabet on a clone of the real object; distinct_nontrivial counts the distinct operations (kind+arguments) applied"

func registerDecCheck(id string, levels []int, expl string) {
	props := map[string]bool{id: true}
	bfs := decShards(id, props, levels)
	register(&Check{
		ID: id,
		Shards: func(tier string) []engine.Shard {
			if id == "C04" {
				// exact expansion is also checked on real parser output (many sequences per block, several drains per call)
				// ... and with a writer that fails or writes short (bytes must still be handed out exactly once)
				return append(append(bfs(tier), acceptShards(id, tier)...), faultShards(id)(tier)...)
			}
			if id == "C17" {
				// n, k, l and Off must also be exact when the writer fails or writes short in the middle of a call
				return append(bfs(tier), faultShards(id)(tier)...)
			}
			return bfs(tier)
		},
		Replay: func(raw json.RawMessage, col *engine.Collector) error {
			var probe struct {
				Level string `json:"level"`
			}
			json.Unmarshal(raw, &probe)
			var isFault struct {
				Contract *bool `json:"contract_abiding_writer"`
			}
			json.Unmarshal(raw, &isFault)
			if probe.Level == "" && isFault.Contract != nil {
				return replayFault(id, raw, col)
			}
			if probe.Level == "" {
				return replayAccept(id, raw, col)
			}
			return replayDec(id, props, raw, col)
		},
		Bounds: func(tier string) map[string]any {
			m := decBounds(levels)(tier)
			if id == "C04" {
				m["parser_output_product"] = layerBounds(acceptLayersFor(id, tier))
			}
			if id == "C17" {
				m["writer_fault_enumeration"] = Registry["C18"].Bounds(tier)
			}
			return m
		},
		Rule:        ruleDec,
		Explanation: expl,
		StatesNote:  "state = canonical key of the real DecoderBuffer/Decoder plus the model cursor; transition = one API call applied to a clone of a reached state and, in lock step, to the reference model; traces_validated_against_impl = distinct states, each reached by a real path from Init",
		Assumptions: []string{
			"WindowSize < BufferSize <= 9, at most 64 bytes written, depth as stated; WindowSize 0 cannot be configured through Init (SetDefaults replaces it)",
			"128-bit hash compaction of state keys",
			"literal bytes are 'a'+(position mod 3)",
		},
	})
}

func init() {
	registerDecCheck("C04", []int{0, 1}, "decoder expands valid streams exactly under every interleaving")
	registerDecCheck("C05", []int{0, 1}, "malformed sequences rejected atomically, never a panic")
	registerDecCheck("C06", []int{0, 1}, "every DecoderBuffer and Decoder call terminates (copy loops, retry loops)")
	registerDecCheck("C17", []int{0, 1}, "n, k, l and Off exact")
}
