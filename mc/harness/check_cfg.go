package harness

import (
	"bytes"
	"encoding/hex"
	"encoding/json"
	"fmt"
	"reflect"
	"sort"
	"strings"

	"github.com/ulikunitz/lz"
	"verif/mc/engine"
)

// ---- configuration enumeration shared by C16 (part A) and C20 ----

// Fields is a configuration given as field values; Cost is kept apart because
// it is the only string field.
type Fields struct {
	Kind string         `json:"kind"`
	I    map[string]int `json:"fields"`
	Cost string         `json:"cost,omitempty"`
}

func (f Fields) String() string {
	keys := make([]string, 0, len(f.I))
	for k := range f.I {
		keys = append(keys, k)
	}
	sort.Strings(keys)
	var sb strings.Builder
	sb.WriteString(f.Kind + "{")
	for _, k := range keys {
		if f.I[k] != 0 {
			fmt.Fprintf(&sb, "%s:%d ", k, f.I[k])
		}
	}
	if f.Cost != "" {
		fmt.Fprintf(&sb, "Cost:%q", f.Cost)
	}
	sb.WriteString("}")
	return sb.String()
}

// Make builds the configuration value (no JSON involved: ParseJSON is under test).
func (f Fields) Make() lz.ParserConfig {
	g := func(k string) int { return f.I[k] }
	var c lz.ParserConfig
	switch f.Kind {
	case "HP":
		c = &lz.HPConfig{InputLen: g("InputLen"), HashBits: g("HashBits")}
	case "BHP":
		c = &lz.BHPConfig{InputLen: g("InputLen"), HashBits: g("HashBits")}
	case "DHP":
		c = &lz.DHPConfig{InputLen1: g("InputLen1"), HashBits1: g("HashBits1"), InputLen2: g("InputLen2"), HashBits2: g("HashBits2")}
	case "BDHP":
		c = &lz.BDHPConfig{InputLen1: g("InputLen1"), HashBits1: g("HashBits1"), InputLen2: g("InputLen2"), HashBits2: g("HashBits2")}
	case "BUP":
		c = &lz.BUPConfig{InputLen: g("InputLen"), HashBits: g("HashBits"), BucketSize: g("BucketSize")}
	case "GSAP":
		c = &lz.GSAPConfig{MinMatchLen: g("MinMatchLen")}
	case "OSAP":
		c = &lz.OSAPConfig{MinMatchLen: g("MinMatchLen"), MaxMatchLen: g("MaxMatchLen"), Cost: f.Cost}
	default:
		panic("unknown kind " + f.Kind)
	}
	c.SetBufConfig(lz.BufConfig{ShrinkSize: g("ShrinkSize"), BufferSize: g("BufferSize"), WindowSize: g("WindowSize"), BlockSize: g("BlockSize")})
	return c
}

var bufFields = []string{"ShrinkSize", "BufferSize", "WindowSize", "BlockSize"}

func searchFields(kind string) []string {
	switch kind {
	case "HP", "BHP":
		return []string{"InputLen", "HashBits"}
	case "DHP", "BDHP":
		return []string{"InputLen1", "HashBits1", "InputLen2", "HashBits2"}
	case "BUP":
		return []string{"InputLen", "HashBits", "BucketSize"}
	case "GSAP":
		return []string{"MinMatchLen"}
	case "OSAP":
		return []string{"MinMatchLen", "MaxMatchLen"}
	}
	return nil
}

var sizeDomain = []int{-1, 0, 1, 2, 7, 8, 1<<31 - 1, 1 << 31, 1<<32 - 9, 1<<32 - 8, 1<<32 - 7, 1 << 62}
var sizeDomainThin = []int{-1, 0, 8, 1<<32 - 7}

func fieldDomain(kind, name string, thin bool) []int {
	switch name {
	case "ShrinkSize", "BufferSize", "WindowSize", "BlockSize":
		if thin {
			return sizeDomainThin
		}
		return sizeDomain
	case "InputLen", "InputLen1", "InputLen2":
		if thin {
			return []int{0, 2, 9}
		}
		return []int{-1, 0, 1, 2, 3, 4, 8, 9}
	case "HashBits", "HashBits1", "HashBits2":
		if thin {
			return []int{0, 1, 25}
		}
		return []int{-1, 0, 1, 2, 16, 17, 23, 24, 25, 64}
	case "BucketSize":
		if thin {
			return []int{0, 1, 129}
		}
		return []int{-1, 0, 1, 2, 128, 129}
	case "MinMatchLen", "MaxMatchLen":
		if thin {
			return []int{0, 1, 2, 1 << 31}
		}
		return []int{-1, 0, 1, 2, 3, 273, 1 << 31}
	}
	panic("no domain for " + name)
}

// memoryOK rejects combinations whose tables would need more than ~64 MiB
// when accepted ("bounded only by memory").
func (f Fields) memoryOK() bool {
	hb := func(k string) int {
		v := f.I[k]
		if v > 24 || v < 0 {
			return 0 // will be rejected by Verify anyway
		}
		return v
	}
	switch f.Kind {
	case "HP", "BHP":
		return hb("HashBits") <= 23
	case "DHP", "BDHP":
		return hb("HashBits1")+0 <= 23 && hb("HashBits2") <= 23 && !(hb("HashBits1") >= 23 && hb("HashBits2") >= 23)
	case "BUP":
		bs := f.I["BucketSize"]
		if bs == 0 {
			bs = 10
		}
		h := hb("HashBits")
		if h == 0 {
			h = 12
		}
		return bs < 0 || bs > 128 || (int64(1)<<uint(h))*int64(bs) <= 1<<23
	}
	return true
}

// product enumerates the full product of the listed fields over their domains on top of base.
func product(kind string, base map[string]int, names []string, thin bool, cost string, f func(Fields)) {
	vals := make([][]int, len(names))
	for i, n := range names {
		vals[i] = fieldDomain(kind, n, thin)
	}
	idx := make([]int, len(names))
	for {
		m := make(map[string]int, len(base)+len(names))
		for k, v := range base {
			m[k] = v
		}
		for i, n := range names {
			m[n] = vals[i][idx[i]]
		}
		x := Fields{Kind: kind, I: m, Cost: cost}
		if x.memoryOK() {
			f(x)
		}
		i := len(names) - 1
		for i >= 0 {
			idx[i]++
			if idx[i] < len(vals[i]) {
				break
			}
			idx[i] = 0
			i--
		}
		if i < 0 {
			return
		}
	}
}

func smallValid(kind string) map[string]int {
	m := map[string]int{"BufferSize": 8, "WindowSize": 8, "BlockSize": 4, "ShrinkSize": 2}
	switch kind {
	case "HP", "BHP":
		m["InputLen"], m["HashBits"] = 3, 4
	case "DHP", "BDHP":
		m["InputLen1"], m["HashBits1"], m["InputLen2"], m["HashBits2"] = 2, 3, 4, 4
	case "BUP":
		m["InputLen"], m["HashBits"], m["BucketSize"] = 3, 3, 2
	case "GSAP":
		m["MinMatchLen"] = 2
	case "OSAP":
		m["MinMatchLen"], m["MaxMatchLen"] = 2, 5
	}
	return m
}

// EnumConfigs enumerates the configuration space of one kind clause by clause:
// the full product of the buffer fields over the boundary domain with the
// search fields at three baselines, the full product of the search fields
// with the buffer fields at three baselines, and every pair (buffer field
// value, search field value) with the rest at the small valid baseline. With
// thin=true all fields are varied together over thinned domains (full product).
func EnumConfigs(kind string, clause string, f func(Fields)) {
	sf := searchFields(kind)
	costs := []string{""}
	if kind == "OSAP" {
		costs = []string{"", "XZCost", "x"}
	}
	sv := smallValid(kind)
	zero := map[string]int{}
	invalid := map[string]int{"BufferSize": -1}
	pick := func(m map[string]int, names []string) map[string]int {
		o := map[string]int{}
		for _, n := range names {
			if v, ok := m[n]; ok {
				o[n] = v
			}
		}
		return o
	}
	switch clause {
	case "buffer":
		for _, base := range []map[string]int{pick(zero, sf), pick(sv, sf)} {
			product(kind, base, bufFields, false, "", f)
		}
	case "search":
		for _, cost := range costs {
			for _, base := range []map[string]int{pick(zero, bufFields), pick(sv, bufFields), pick(invalid, bufFields)} {
				product(kind, base, sf, false, cost, f)
			}
		}
	case "cross":
		for _, bn := range bufFields {
			for _, sn := range sf {
				product(kind, func() map[string]int {
					m := map[string]int{}
					for k, v := range sv {
						if k != bn && k != sn {
							m[k] = v
						}
					}
					return m
				}(), []string{bn, sn}, false, "", f)
			}
		}
	case "thin-full":
		for _, cost := range costs {
			product(kind, zero, append(append([]string{}, bufFields...), sf...), true, cost, f)
		}
	}
}

var cfgClauses = []string{"buffer", "search", "cross", "thin-full"}

// CfgCase is the replayable description of a configuration case. Recent holds
// the configurations processed just before it by the same worker (some
// defects, e.g. a pooled scratch value, only show after other configurations).
type CfgCase struct {
	Check  string   `json:"check"`
	Sub    string   `json:"sub,omitempty"`
	Cfg    Fields   `json:"cfg"`
	Recent []Fields `json:"recent,omitempty"`
	Doc    string   `json:"doc,omitempty"`
}

type cfgRun struct {
	prop   string
	st     *engine.Stats
	col    *engine.Collector
	recent []Fields
	cur    Fields
	doc    string
	sub    string // sub-check for the replay dispatch ("" = configuration value, "reported", "json")
	// previous configuration of this worker and its document: parsed again
	// after the current one has been marshalled (marshal A, marshal B, parse A)
	prevDoc []byte
	prevCfg lz.ParserConfig
}

func (r *cfgRun) fail(sig, format string, a ...any) {
	full := r.prop + "|" + r.cur.Kind + "|" + sig
	if r.col.Seen(full) {
		r.col.Report(engine.Violation{Property: r.prop, Sig: full, Rank: 1 << 62})
		return
	}
	r.col.Report(engine.Violation{Property: r.prop, Sig: full, Msg: fmt.Sprintf(format, a...),
		Case: CfgCase{Check: r.prop, Sub: r.sub, Cfg: r.cur, Recent: append([]Fields(nil), r.recent...), Doc: r.doc}, Rank: int64(len(r.cur.String()))})
}

func (r *cfgRun) remember(f Fields) {
	if len(r.recent) >= 3 {
		r.recent = r.recent[1:]
	}
	r.recent = append(r.recent, f)
}

func fieldsOf(c lz.ParserConfig) map[string]any {
	v := reflect.Indirect(reflect.ValueOf(c))
	m := map[string]any{}
	for i := 0; i < v.NumField(); i++ {
		m[v.Type().Field(i).Name] = v.Field(i).Interface()
	}
	return m
}

// ---- C16 part A: NewParser accepts exactly what SetDefaults+Verify accepts ----

func (r *cfgRun) checkNewParser(f Fields) (accepted lz.ParserConfig) {
	r.cur, r.doc = f, ""
	defer func() {
		if x := recover(); x != nil {
			r.fail("NewParser|panic", "NewParser (or SetDefaults/Verify/Clone) of %s panicked: %v", f, x)
			accepted = nil
		}
	}()
	c := f.Make()
	r.st.Execs++
	want := c.Clone()
	want.SetDefaults()
	verr := want.Verify()
	p, err := c.NewParser()
	r.st.Transitions += 4
	switch {
	case err == nil && verr != nil:
		r.fail("NewParser|accepts-unverified", "NewParser accepted %s although Verify of the defaults-completed configuration fails: %v", f, verr)
		return nil
	case err != nil && verr == nil:
		r.fail("NewParser|rejects-verified", "NewParser rejected %s (%v) although the defaults-completed configuration passes Verify", f, err)
		return nil
	case err != nil:
		if p != nil && !reflect.ValueOf(p).IsNil() {
			r.fail("NewParser|parser-with-error", "NewParser returned a parser together with error %v for %s", err, f)
		}
		r.st.Add("configs_rejected", 1)
		return nil
	}
	r.st.Add("configs_accepted", 1)
	if r.prop == "C16" {
		return want // what the parser reports is C20's clause (checked there for every accepted class)
	}
	if got := p.ParserConfig(); !reflect.DeepEqual(got, want) {
		r.fail("ParserConfig|not-defaults-completed", "ParserConfig() of a parser made from %s is %+v, the defaults-completed configuration is %+v", f, got, want)
	}
	if got := p.BufferConfig(); got != want.BufConfig() {
		r.fail("BufferConfig|not-defaults-completed", "BufferConfig() = %+v, want %+v (%s)", got, want.BufConfig(), f)
	}
	return want
}

// ---- C20: JSON round trip, Clone, SetDefaults ----

func (r *cfgRun) checkConfigValue(f Fields) {
	r.cur, r.doc = f, ""
	defer func() {
		if x := recover(); x != nil {
			r.fail("config|panic", "a configuration method panicked for %s: %v", f, x)
		}
	}()
	c := f.Make()
	orig := f.Make()
	r.st.Execs++
	// JSON round trip
	b, err := json.Marshal(c)
	r.st.Transitions++
	if err != nil {
		r.fail("json|marshal-error", "json.Marshal(%s): %v", f, err)
		return
	}
	if !reflect.DeepEqual(c, orig) {
		r.fail("json|marshal-modifies", "json.Marshal modified the configuration %s", f)
	}
	if r.prevDoc != nil {
		// the document of the previous configuration must still parse to the previous configuration
		pb, perr := lz.ParseJSON(r.prevDoc)
		r.st.Transitions++
		if perr != nil || !reflect.DeepEqual(pb, r.prevCfg) {
			r.doc = string(r.prevDoc)
			r.fail("json|roundtrip-after-other", "after marshalling %s, ParseJSON(%s) = %+v, %v; want %+v (the result depends on what was marshalled or parsed before)", f, r.prevDoc, pb, perr, r.prevCfg)
		}
	}
	r.prevDoc, r.prevCfg = b, orig
	back, err := lz.ParseJSON(b)
	r.st.Transitions++
	if err != nil {
		r.doc = string(b)
		r.fail("json|roundtrip-error", "ParseJSON(%s) of marshalled %s: %v", b, f, err)
	} else if reflect.TypeOf(back) != reflect.TypeOf(c) {
		r.doc = string(b)
		r.fail("json|roundtrip-type", "ParseJSON(%s) has type %T, want %T", b, back, c)
	} else if !reflect.DeepEqual(back, orig) {
		r.doc = string(b)
		r.fail("json|roundtrip-fields", "ParseJSON(json.Marshal(cfg)) = %+v, want %+v (document %s)", back, orig, b)
	}
	// the same document must not unmarshal into a configuration of another type
	for _, other := range Kinds {
		if other == f.Kind {
			continue
		}
		o := Fields{Kind: other, I: map[string]int{}}.Make()
		if err := json.Unmarshal(b, o); err == nil {
			r.doc = string(b)
			r.fail("json|cross-type-accepted", "document %s of type %s unmarshals into %T without error", b, f.Kind, o)
		}
		r.st.Transitions++
		break // one other type per configuration (rotating below would cost 6x); the rejection grammar covers all pairs
	}
	// Clone: equal, distinct, independent in both directions
	cl := c.Clone()
	r.st.Transitions++
	if reflect.TypeOf(cl) != reflect.TypeOf(c) || !reflect.DeepEqual(cl, orig) {
		r.fail("clone|not-equal", "Clone of %+v is %+v", orig, cl)
		return
	}
	if reflect.ValueOf(cl).Pointer() == reflect.ValueOf(c).Pointer() {
		r.fail("clone|same-pointer", "Clone returned the receiver itself")
	}
	mutate := func(x lz.ParserConfig) {
		v := reflect.Indirect(reflect.ValueOf(x))
		for i := 0; i < v.NumField(); i++ {
			switch v.Field(i).Kind() {
			case reflect.Int:
				v.Field(i).SetInt(v.Field(i).Int() ^ 0x5a5a)
			case reflect.String:
				v.Field(i).SetString(v.Field(i).String() + "~")
			}
		}
	}
	mutate(cl)
	if !reflect.DeepEqual(c, orig) {
		r.fail("clone|not-independent", "mutating the clone changed the original %s", f)
	}
	cl2 := c.Clone()
	mutate(c)
	if !reflect.DeepEqual(cl2, orig) {
		r.fail("clone|not-independent", "mutating the original changed the clone %s", f)
	}
	c = f.Make()
	// SetDefaults: idempotent, replaces zero fields only
	d1 := c.Clone()
	d1.SetDefaults()
	d2 := d1.Clone()
	d2.SetDefaults()
	r.st.Transitions += 2
	if !reflect.DeepEqual(d1, d2) {
		r.fail("defaults|not-idempotent", "SetDefaults twice on %s gives %+v, once gives %+v", f, d2, d1)
	}
	before, after := fieldsOf(orig), fieldsOf(d1)
	for name, bv := range before {
		if !reflect.ValueOf(bv).IsZero() && !reflect.DeepEqual(bv, after[name]) {
			r.fail("defaults|overwrites-nonzero", "SetDefaults changed the non-zero field %s of %s from %v to %v", name, f, bv, after[name])
		}
	}
	if !reflect.DeepEqual(c, orig) {
		r.fail("defaults|modifies-receiver-of-clone", "SetDefaults on a clone changed the original %s", f)
	}
}

// ---- C20 rejection clause: documents from a small grammar ----

type jsonDoc struct {
	text      string
	mustFail  bool   // Type is not exactly one of the seven names, or the document is damaged
	wantKind  string // for documents that must be accepted
	mayEither bool   // e.g. wrong-typed known field with a valid Type: either outcome is fine
}

func jsonDocs() []jsonDoc {
	var docs []jsonDoc
	types := []struct {
		frag string
		kind string // non-empty: valid
	}{
		{``, ""}, {`"Type":null`, ""}, {`"Type":7`, ""}, {`"Type":""`, ""}, {`"Type":"hp"`, ""}, {`"Type":"HP "`, ""}, {`"Type":" HP"`, ""},
		{`"Type":"XX"`, ""}, {`"Type":"Hp"`, ""}, {`"Type":["HP"]`, ""}, {`"type":"HP"`, "HP"}, // encoding/json matches keys case-insensitively
	}
	for _, k := range Kinds {
		types = append(types, struct{ frag, kind string }{fmt.Sprintf(`"Type":%q`, k), k})
	}
	fields := []struct {
		frag   string
		either bool
	}{{``, false}, {`"InputLen":3`, false}, {`"BufferSize":64`, false}, {`"Foo":1`, false}, {`"InputLen":"x"`, true}, {`"BlockSize":1.5`, true}}
	for _, t := range types {
		for _, fl := range fields {
			parts := []string{}
			if t.frag != "" {
				parts = append(parts, t.frag)
			}
			if fl.frag != "" {
				parts = append(parts, fl.frag)
			}
			body := "{" + strings.Join(parts, ",") + "}"
			docs = append(docs, jsonDoc{text: body, mustFail: t.kind == "", wantKind: t.kind, mayEither: t.kind != "" && fl.either})
			// syntactic damage: always rejected
			if len(body) > 2 {
				docs = append(docs, jsonDoc{text: body[:len(body)-1], mustFail: true})
				docs = append(docs, jsonDoc{text: "{" + strings.Join(parts, ",") + ",}", mustFail: true})
			}
			docs = append(docs, jsonDoc{text: "[" + body + "]", mustFail: true})
		}
	}
	for _, s := range []string{``, `null`, `"HP"`, `7`, `true`, `[]`, `{`, `}`, `{"Type":"HP"}{"Type":"HP"}`, `{"Type":"HP"} x`} {
		docs = append(docs, jsonDoc{text: s, mustFail: true})
	}
	return docs
}

func (r *cfgRun) checkDoc(d jsonDoc) {
	r.cur, r.doc, r.sub = Fields{Kind: "JSON", I: map[string]int{}}, d.text, "json"
	defer func() {
		if x := recover(); x != nil {
			r.fail("ParseJSON|panic", "ParseJSON(%q) panicked: %v", d.text, x)
		}
	}()
	r.st.Execs++
	r.st.Transitions++
	c, err := lz.ParseJSON([]byte(d.text))
	if d.mayEither {
		if err != nil && c != nil && !reflect.ValueOf(c).IsNil() {
			r.fail("ParseJSON|config-with-error", "ParseJSON(%q) returned a configuration together with error %v", d.text, err)
		}
		return
	}
	if d.mustFail {
		if err == nil {
			r.fail("ParseJSON|accepts-bad-type", "ParseJSON(%q) returned %T without error; the Type is not one of the seven parser names (or the document is damaged)", d.text, c)
		} else if c != nil && !reflect.ValueOf(c).IsNil() {
			r.fail("ParseJSON|config-with-error", "ParseJSON(%q) returned a configuration together with error %v", d.text, err)
		}
	} else {
		if err != nil {
			r.fail("ParseJSON|rejects-valid", "ParseJSON(%q) failed: %v", d.text, err)
			return
		}
		want := reflect.TypeOf(Fields{Kind: d.wantKind, I: map[string]int{}}.Make())
		if reflect.TypeOf(c) != want {
			r.fail("ParseJSON|wrong-type", "ParseJSON(%q) returned %T, want %v", d.text, c, want)
		}
	}
	// a document must only unmarshal into the configuration type its Type names
	for _, k := range Kinds {
		o := Fields{Kind: k, I: map[string]int{}}.Make()
		uerr := json.Unmarshal([]byte(d.text), o)
		r.st.Transitions++
		if uerr == nil && (d.mustFail || d.wantKind != k) {
			r.fail("Unmarshal|accepts-mismatching-type", "json.Unmarshal(%q) into %T succeeded", d.text, o)
		}
	}
}

func cfgShards(prop string, body func(r *cfgRun, f Fields)) []engine.Shard {
	var shards []engine.Shard
	for _, kind := range Kinds {
		for _, clause := range cfgClauses {
			kind, clause := kind, clause
			shards = append(shards, engine.Shard{
				Name: fmt.Sprintf("%s/cfgenum/%s/%s", prop, kind, clause),
				Run: func(st *engine.Stats, col *engine.Collector) {
					r := &cfgRun{prop: prop, st: st, col: col}
					seen := map[string]struct{}{}
					EnumConfigs(kind, clause, func(f Fields) {
						k := f.String()
						if _, ok := seen[k]; ok {
							return
						}
						seen[k] = struct{}{}
						engine.Progress.Add(1)
						body(r, f)
						r.remember(f)
						if len(st.Samples) < 1 && len(seen) == 1000 {
							st.Sample(map[string]any{"clause": clause, "cfg": f})
						}
					})
					st.Nontrivial += int64(len(seen))
					st.States += int64(len(seen))
					st.Add("configs_"+clause, int64(len(seen)))
				},
			})
		}
	}
	return shards
}

func replayCfg(prop string, raw json.RawMessage, col *engine.Collector, body func(r *cfgRun, f Fields)) error {
	var cc CfgCase
	if err := json.Unmarshal(raw, &cc); err != nil {
		return err
	}
	var st engine.Stats
	r := &cfgRun{prop: prop, st: &st, col: engine.NewCollector()}
	for _, f := range cc.Recent {
		body(r, f)
		r.remember(f)
	}
	r.col = col
	if cc.Sub == "reported" {
		checkReported(r, PCfg{Kind: cc.Cfg.Kind, JSON: cc.Doc}, Union(Binary(4), FewLong(12)))
		return nil
	}
	if cc.Cfg.Kind == "JSON" {
		for _, d := range jsonDocs() {
			if d.text == cc.Doc {
				r.checkDoc(d)
			}
		}
		return nil
	}
	body(r, cc.Cfg)
	fmt.Printf("replayed configuration %s (after %d earlier ones)\n", cc.Cfg, len(cc.Recent))
	return nil
}

var _ = hex.EncodeToString

// checkReported compares a parser made from an accepted (defaults-completed)
// configuration with one made from the configuration it reports.
func checkReported(r *cfgRun, pc PCfg, inputs InputSet) {
	r.cur = Fields{Kind: pc.Kind, I: map[string]int{}}
	r.doc, r.sub = pc.JSON, "reported"
	defer func() {
		r.sub = ""
		if x := recover(); x != nil {
			// a parser that panics is C16's business, not a statement about configurations
			r.st.Add("panics_recovered_and_left_to_C16", 1)
		}
	}()
	c := pc.Config()
	p, err := c.NewParser()
	if err != nil {
		r.fail("reported-config|rejected", "defaults-completed accepted configuration %s is rejected: %v", pc.JSON, err)
		return
	}
	rep := p.ParserConfig()
	if !reflect.DeepEqual(rep, c) {
		r.fail("reported-config|differs", "ParserConfig() = %+v for a parser made from the defaults-completed %+v", rep, c)
	}
	if p.BufferConfig() != c.BufConfig() {
		r.fail("reported-config|buffer-differs", "BufferConfig() = %+v, configuration has %+v", p.BufferConfig(), c.BufConfig())
	}
	// what the parser reports must not change when it is used: Reset with a caller slice that has spare
	// capacity, Reset(nil), and handing the parser to Wrap
	if B := c.BufConfig().BufferSize; B < 1<<16 {
		if err := p.Reset(make([]byte, 1, B+64)); err == nil {
			if !reflect.DeepEqual(p.ParserConfig(), c) || p.BufferConfig() != c.BufConfig() {
				r.fail("reported-config|changed-by-reset", "after Reset with a slice of capacity %d the parser reports %+v / %+v, it was created from %+v", B+64, p.ParserConfig(), p.BufferConfig(), c)
			}
			p.Reset(nil)
			if !reflect.DeepEqual(p.ParserConfig(), c) || p.BufferConfig() != c.BufConfig() {
				r.fail("reported-config|changed-by-reset", "after Reset(data) and Reset(nil) the parser reports %+v / %+v, it was created from %+v", p.ParserConfig(), p.BufferConfig(), c)
			}
		}
	}
	lz.Wrap(bytes.NewReader(nil), p)
	if !reflect.DeepEqual(p.ParserConfig(), c) || p.BufferConfig() != c.BufConfig() {
		r.fail("reported-config|changed-by-wrap", "after Wrap(reader, parser) the parser reports %+v / %+v, it was created from %+v", p.ParserConfig(), p.BufferConfig(), c)
	}
	inputs.Each(func(in []byte) {
		a, errA := parseAll(c, in)
		b, errB := parseAll(rep, in)
		r.st.Execs += 2
		r.st.Transitions += int64(len(a) + len(b))
		if (errA == nil) != (errB == nil) || streamKey(a) != streamKey(b) {
			r.fail("reported-config|behaves-differently", "parser made from ParserConfig() of %s emits different blocks on %q", pc.JSON, in)
		}
	})
	r.st.Add("configs_compared", 1)
}
