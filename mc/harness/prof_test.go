package harness

import (
	"testing"
	"verif/mc/engine"
)

func BenchmarkLayer(b *testing.B) {
	l := Layer{Name: "hash-b1", Kinds: []string{"HP"}, BufSizes: []int{3, 5}, Level: 0, Inputs: Binary(6), Menu: FullMenu, Bound: 1}
	for _, track := range []bool{true, false} {
		l.NoTrack = !track
		b.Run(map[bool]string{true: "track", false: "notrack"}[track], func(b *testing.B) {
			for i := 0; i < b.N; i++ {
				var st engine.Stats
				col := engine.NewCollector()
				cfgs := Configs("HP", Geometry(l.BufSizes), 0)
				runParserShard("C01", l, cfgs[:40], OracleC01, &st, col)
				b.ReportMetric(float64(st.Execs), "execs")
			}
		})
	}
}
