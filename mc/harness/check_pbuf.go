package harness

import (
	"encoding/json"
	"fmt"

	"verif/mc/engine"
)

func pbLayers(tier string) []Layer {
	m := Menu{WriteChunks: true, ReadFrom: true, NTL: true, ParseNil: true, StopEarly: true, ShrinkDev: true, Reset: true}
	if tier == "thorough" {
		return []Layer{
			c16ResetLayers(tier)[0],
			{Name: "parsers-b1", Kinds: Kinds, BufSizes: []int{1, 2, 3, 5, 8}, Level: 0, Inputs: Binary(6), Menu: m, Bound: 1, CfgFilter: fewSearchParams},
			{Name: "parsers-b2", Kinds: []string{"HP", "BUP", "DHP"}, BufSizes: []int{2, 3, 5}, Level: 0, Inputs: Binary(5), Menu: m, Bound: 2, CfgFilter: fewSearchParams},
		}
	}
	return []Layer{
		// Reset with caller slices of every capacity relation, also several in a row (what Reset keeps of the old array)
		c16ResetLayers(tier)[0],
		{Name: "parsers-b1", Kinds: Kinds, BufSizes: []int{1, 2, 3, 5}, Level: 0, Inputs: Binary(4), Menu: m, Bound: 1, CfgFilter: fewSearchParams},
		{Name: "parsers-b2", Kinds: []string{"HP", "BUP"}, BufSizes: []int{3}, Level: 0, Inputs: Binary(4), Menu: m, Bound: 2, CfgFilter: fewSearchParams},
	}
}

// fewSearchParams keeps one search-parameter tuple per kind: the buffer
// behaviour does not depend on the search structure.
func fewSearchParams(pc PCfg) bool {
	c := pc.Config()
	switch pc.Kind {
	case "HP", "BHP", "BUP":
		return iField(c, "InputLen") == 3 && iField(c, "HashBits") == 1 && (pc.Kind != "BUP" || iField(c, "BucketSize") == 2)
	case "DHP", "BDHP":
		return iField(c, "InputLen1") == 2 && iField(c, "HashBits1") == 1
	case "GSAP":
		return iField(c, "MinMatchLen") == 2
	case "OSAP":
		return iField(c, "MinMatchLen") == 2 && iField(c, "MaxMatchLen") == 3
	}
	return true
}

func pbDepth(tier string) (int, int64) {
	if tier == "thorough" {
		return 8, 4_000_000
	}
	return 6, 1_500_000
}

func init() {
	register(&Check{
		ID: "C15",
		Shards: func(tier string) []engine.Shard {
			depth, cap := pbDepth(tier)
			var shards []engine.Shard
			for B := 1; B <= 6; B++ {
				for S := 0; S <= B; S++ {
					B, S := B, S
					shards = append(shards, engine.Shard{
						Name: fmt.Sprintf("C15/bfs/B%d-S%d", B, S),
						Run:  func(st *engine.Stats, col *engine.Collector) { runPBBFS(B, S, depth, cap, st, col) },
					})
				}
			}
			shards = append(shards, parserShards("C15", pbLayers(tier), OracleC15)...)
			return shards
		},
		Replay: func(raw json.RawMessage, col *engine.Collector) error {
			var probe struct {
				Kind string `json:"kind"`
			}
			json.Unmarshal(raw, &probe)
			if probe.Kind != "" {
				return replayParser("C15", raw, OracleC15, col)
			}
			return replayPB(raw, col)
		},
		Bounds: func(tier string) map[string]any {
			d, c := pbDepth(tier)
			m := layerBounds(pbLayers(tier))
			m["bfs"] = map[string]any{"BufferSize": "1..6", "ShrinkSize": "0..BufferSize", "depth": d, "state_cap_per_config": c,
				"alphabet": "Write {0,1,2,avail-1,avail,avail+1} bytes; ReadFrom with {0,1,avail-1,avail,avail+1,avail+40} remaining bytes x reader scripts {plain, one byte per Read, data+EOF, error first, one byte together with an error}; parse 1, 2 or all bytes; Shrink; Reset(nil); Reset(data) len {0,1,B,B+1} x spare capacity {0,7,64}",
				"probes":   "after every transition ByteAt/ReadAt/PeekAt at offsets {Off-1,Off,Off+1,Off+len-1,Off+len,Off+len+1} with lengths {0,1,2,len,len+1}"}
			return m
		},
		Rule:        "explicit-state BFS over the bare ParserBuffer (distinct canonical states, each expanded with the whole alphabet) plus the parser-history enumeration with a probe oracle on all seven real parsers; distinct_nontrivial = distinct operations applied (bfs) + (configuration,input) pairs with a new observation trace (histex)",
		Explanation: "ParserBuffer is a faithful bounded sliding view",
		StatesNote:  "bfs: state = (cap, len, W, Off, Data bytes) of the real ParserBuffer; histex: state = parser state hash; transition = one API call on the real object",
		Assumptions: []string{"BufferSize <= 6 for the bfs, <= 8 for the parser histories", "128-bit hash compaction of state keys"},
	})
}
