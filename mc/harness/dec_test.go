package harness

import (
	"testing"
	"time"
	"verif/mc/engine"
)

func TestDecSize(t *testing.T) {
	for _, lvl := range []int{0, 1} {
		for _, d := range []int{2, 3, 4} {
			var st engine.Stats
			col := engine.NewCollector()
			t0 := time.Now()
			runDecBFS("C17", map[string]bool{"C17": true, "C04": true, "C05": true, "C06": true}, DecConfig{W: 2, B: 5}, lvl, d, 48, 3000000, &st, col)
			vs, cnt := col.All()
			t.Logf("level %d depth %d: states %d transitions %d pruned %d caps %v  %v viol=%d", lvl, d, st.States, st.Transitions, st.Pruned, st.CapsHit, time.Since(t0), len(vs))
			for _, v := range vs {
				t.Logf("   %s x%d: %s", v.Sig, cnt[v.Sig], v.Msg)
			}
		}
	}
}
