package ref

import "github.com/ulikunitz/lz"

// Dec is the reference model of a decoder: the bytes written since Init/Reset
// and a read cursor. It knows nothing about buffers, shrinking or capacity.
type Dec struct {
	W    int    // window size
	Out  []byte // everything written since Reset
	Read int    // bytes handed out so far
}

// Clone copies the model.
func (d *Dec) Clone() *Dec {
	return &Dec{W: d.W, Out: append([]byte(nil), d.Out...), Read: d.Read}
}

// Avail returns the number of bytes addressable as match source.
func (d *Dec) Avail() int { return min(d.W, len(d.Out)) }

// MatchOK tells whether WriteMatch(m, o) is well-formed in the current state.
func (d *Dec) MatchOK(m, o uint32) bool {
	if o == 0 && m > 0 {
		return false
	}
	return int64(o) <= int64(d.Avail())
}

// AppendMatch appends m bytes copied from o bytes back.
func (d *Dec) AppendMatch(m, o uint32) {
	for i := uint32(0); i < m; i++ {
		d.Out = append(d.Out, d.Out[len(d.Out)-int(o)])
	}
}

// FirstMalformed returns the index of the first malformed sequence of blk in the
// current state, or -1.
func (d *Dec) FirstMalformed(blk *lz.Block) int {
	n := int64(len(d.Out))
	lits := int64(len(blk.Literals))
	for k, s := range blk.Sequences {
		if int64(s.LitLen) > lits {
			return k
		}
		if s.Offset == 0 && s.MatchLen > 0 {
			return k
		}
		avail := n + int64(s.LitLen)
		if avail > int64(d.W) {
			avail = int64(d.W)
		}
		if int64(s.Offset) > avail {
			return k
		}
		lits -= int64(s.LitLen)
		n += int64(s.LitLen) + int64(s.MatchLen)
	}
	return -1
}

// AppendSeqs appends the expansion of the first k sequences of blk and, if
// trailing is true, the remaining literals. It returns the number of bytes
// appended and the number of literal bytes consumed. The sequences must be
// well-formed.
func (d *Dec) AppendSeqs(blk *lz.Block, k int, trailing bool) (n, l int) {
	start := len(d.Out)
	lits := blk.Literals
	for _, s := range blk.Sequences[:k] {
		d.Out = append(d.Out, lits[:s.LitLen]...)
		lits = lits[s.LitLen:]
		l += int(s.LitLen)
		d.AppendMatch(s.MatchLen, s.Offset)
	}
	if trailing {
		d.Out = append(d.Out, lits...)
		l += len(lits)
	}
	return len(d.Out) - start, l
}
