package ref

import "math/bits"

// XZCost is an independent re-implementation of the documented cost model of
// lz.XZCost: a literal costs 9 bits; a match costs 4, 5 or 10 bits for the
// length (m-2 < 8, < 16, otherwise) plus 4 bits for distances 1..4 and
// 2+bitlen(o-1) bits otherwise.
func XZCost(m, o uint32) uint64 {
	if o == 0 {
		return 9 * uint64(m)
	}
	var c uint64
	switch l := m - 2; {
	case l < 8:
		c = 4
	case l < 16:
		c = 5
	default:
		c = 10
	}
	if o-1 < 4 {
		return c + 4
	}
	return c + 2 + uint64(bits.Len32(o-1))
}

// OptimalCost returns the minimum total cost of an LZ77 parse of
// buf[w:w+n] with match lengths in [minM,maxM], offsets <= window and match
// sources inside buf (positions >= 0). Matches may not extend beyond the block.
func OptimalCost(buf []byte, w, n, minM, maxM, window int, cost func(m, o uint32) uint64) uint64 {
	const inf = ^uint64(0)
	d := make([]uint64, n+1)
	for i := 1; i <= n; i++ {
		d[i] = inf
	}
	end := w + n
	for i := 0; i < n; i++ {
		if d[i] == inf {
			continue
		}
		if c := d[i] + cost(1, 0); c < d[i+1] {
			d[i+1] = c
		}
		p := w + i
		for o := 1; o <= window && o <= p; o++ {
			l := 0
			for p+l < end && l < maxM && buf[p+l-o] == buf[p+l] {
				l++
			}
			for m := minM; m <= l; m++ {
				if c := d[i] + cost(uint32(m), uint32(o)); c < d[i+m] {
					d[i+m] = c
				}
			}
		}
	}
	return d[n]
}
