package harness

import (
	"bytes"
	"encoding/hex"
	"encoding/json"
	"fmt"
	"io"
	"sync"

	"github.com/ulikunitz/lz"
	"verif/mc/engine"
)

// ---- C13 sequential part: Reset == new, determinism ----

// RCase is a replayable Reset-equivalence case.
type RCase struct {
	Kind      string `json:"kind"`
	Cfg       string `json:"cfg"`
	Prior     string `json:"prior_hex"`
	PriorText string `json:"prior_text,omitempty"`
	PriorMode int    `json:"prior_mode"`
	ResetKind int    `json:"reset_kind"` // 0 Reset(nil), 1..3 Reset(data) with spare capacity 0, 7, 64
	Next      string `json:"next_hex"`
	NextText  string `json:"next_text,omitempty"`
	Choices   []int  `json:"choices"`
	Ops       string `json:"ops,omitempty"`
	Oracle    string `json:"oracle,omitempty"` // property whose oracle judged the reset parser's run (empty: C13 differential)
}

// drivePrior gives the parser a history. mode 0: default loop over the whole
// input (fills, parses, shrinks); 1: write what fits, never parse; 2: write,
// one Parse, stop; 3: like 0 with NoTrailingLiterals.
func drivePrior(p lz.Parser, prior []byte, mode int) {
	var blk lz.Block
	flags := 0
	if mode == 3 {
		flags = lz.NoTrailingLiterals
	}
	if mode == 4 {
		// the prior data arrives through Reset with a slice without spare capacity (copied into the parser's own
		// array, which the next Reset may want to reuse) and is parsed completely
		d := append(make([]byte, 0, len(prior)), prior...)
		if p.Reset(d) != nil {
			return
		}
		for {
			if _, err := p.Parse(&blk, 0); err != nil {
				return
			}
		}
	}
	for guard := 0; guard < 4*len(prior)+8; guard++ {
		n, _ := p.Write(prior)
		prior = prior[n:]
		if mode == 1 {
			return
		}
		for {
			_, err := p.Parse(&blk, flags)
			if err != nil || mode == 2 {
				break
			}
		}
		if mode == 2 || len(prior) == 0 {
			return
		}
		if p.Shrink() == 0 && n == 0 {
			return
		}
	}
}

func resetData(next []byte, B int, kind int) []byte {
	if kind == 0 {
		return nil
	}
	d := next[:min(len(next), B)]
	extra := []int{0, 0, 7, 64}[kind]
	arg := make([]byte, len(d), len(d)+extra)
	copy(arg, d)
	full := arg[:cap(arg)]
	for i := len(d); i < len(full); i++ {
		full[i] = 0x5A ^ byte(i)
	}
	return arg
}

func recEqual(a, b []RecEv) (int, bool) {
	for i := 0; i < len(a) && i < len(b); i++ {
		x, y := a[i], b[i]
		if x.Op != y.Op || x.N != y.N || x.Err != y.Err || !seqsEqual(x.Seqs, y.Seqs) || !bytes.Equal(x.Lits, y.Lits) {
			return i, false
		}
	}
	if len(a) != len(b) {
		return min(len(a), len(b)), false
	}
	return 0, true
}

func fmtRec(e []RecEv, i int) string {
	if i >= len(e) {
		return "(no event)"
	}
	x := e[i]
	return fmt.Sprintf("%s n=%d err=%q seqs=%v lits=%q", opNames[min(int(x.Op), len(opNames)-1)], x.N, x.Err, x.Seqs, x.Lits)
}

type resetRunner struct {
	hReset, hFresh *Hist
	none           Oracle
	// orc, if set, is the property oracle applied to the reset parser's run
	// (C12 uses the reset-prior driver with its own oracle); the comparison
	// with a fresh parser is C13's and is skipped then.
	orc     *Oracle
	bufSize int
	bFor    string
}

func newResetRunner(st *engine.Stats, col *engine.Collector, menu Menu) *resetRunner {
	return &resetRunner{
		hReset: &Hist{St: st, Col: col, Prop: "C13", Menu: menu, Record: true, Track: true},
		hFresh: &Hist{St: &engine.Stats{}, Col: col, Prop: "C13", Menu: menu, Record: true},
	}
}

// runResetCase explores all histories (deviation bound) of next after
// (prior, mode, Reset kind) on a used parser and compares each with a fresh one.
func (r *resetRunner) run(pc PCfg, prior []byte, mode, resetKind int, next []byte, bound int, determinism bool) {
	h, f := r.hReset, r.hFresh
	h.PC, f.PC = pc, pc
	h.Input, f.Input = next, next
	if r.bFor != pc.JSON {
		c := pc.Config().BufConfig()
		c.SetDefaults()
		r.bufSize, r.bFor = c.BufferSize, pc.JSON
	}
	B := r.bufSize
	pre := next[:0]
	if resetKind != 0 {
		pre = next[:min(len(next), B)]
	}
	h.Preload, f.Preload = pre, pre
	h.NewParserFn = func(cfg lz.ParserConfig) lz.Parser {
		p, err := cfg.NewParser()
		if err != nil {
			panic(err)
		}
		drivePrior(p, prior, mode)
		if err := p.Reset(resetData(next, B, resetKind)); err != nil {
			panic(fmt.Errorf("Reset failed: %v", err))
		}
		return p
	}
	f.NewParserFn = func(cfg lz.ParserConfig) lz.Parser {
		p, err := cfg.NewParser()
		if err != nil {
			panic(err)
		}
		if resetKind != 0 {
			if err := p.Reset(resetData(next, B, resetKind)); err != nil {
				panic(fmt.Errorf("Reset failed: %v", err))
			}
		}
		return p
	}
	h.CaseFn = nil
	if r.orc != nil {
		h.CaseFn = func() any {
			return RCase{Kind: pc.Kind, Cfg: pc.JSON, Prior: hex.EncodeToString(prior), PriorText: printable(prior), PriorMode: mode, ResetKind: resetKind,
				Next: hex.EncodeToString(next), NextText: printable(next), Choices: h.C.Choices(), Ops: h.OpsString(), Oracle: h.Prop}
		}
	}
	var fc engine.Chooser
	engine.Explore(bound, func(c *engine.Chooser) {
		h.C = c
		if r.orc != nil {
			RunParserHist(h, r.orc)
			return
		}
		RunParserHist(h, &r.none)
		// the fresh parser replays exactly the same choices
		fc.Reset(c.Cs)
		f.C = &fc
		func() {
			defer func() {
				if rec := recover(); rec != nil {
					if _, ok := rec.(engine.ReplayDivergence); ok {
						return // the comparison below reports the difference
					}
					panic(rec)
				}
			}()
			RunParserHist(f, &r.none)
		}()
		if i, ok := recEqual(h.Rec, f.Rec); !ok {
			sig := "C13|" + pc.Kind + "|reset-differs-from-new"
			var cs any
			if !h.Col.Seen(sig) {
				cs = RCase{Kind: pc.Kind, Cfg: pc.JSON, Prior: hex.EncodeToString(prior), PriorText: printable(prior), PriorMode: mode, ResetKind: resetKind,
					Next: hex.EncodeToString(next), NextText: printable(next), Choices: c.Choices(), Ops: h.OpsString()}
			}
			h.Col.Report(engine.Violation{Property: "C13", Sig: sig, Case: cs,
				Msg:  fmt.Sprintf("after prior %q (mode %d) and Reset kind %d the parser differs from a new one at event %d: reset parser %s; new parser %s (ops %s)", prior, mode, resetKind, i, fmtRec(h.Rec, i), fmtRec(f.Rec, i), h.OpsString()),
				Rank: int64(len(prior)+len(next))<<16 + int64(len(c.Cs))})
		}
		if determinism {
			first := append([]RecEv(nil), f.Rec...)
			fc.Reset(c.Cs)
			RunParserHist(f, &r.none)
			if i, ok := recEqual(first, f.Rec); !ok {
				sig := "C13|" + pc.Kind + "|nondeterministic"
				h.Col.Report(engine.Violation{Property: "C13", Sig: sig,
					Case: RCase{Kind: pc.Kind, Cfg: pc.JSON, ResetKind: resetKind, Next: hex.EncodeToString(next), NextText: printable(next), Choices: c.Choices()},
					Msg:  fmt.Sprintf("two new parsers given the same calls differ at event %d: %s vs %s", i, fmtRec(first, i), fmtRec(f.Rec, i))})
			}
		}
	})
}

type resetLayer struct {
	Name        string
	Kinds       []string
	BufSizes    []int
	Level       int
	Prior, Next InputSet
	Modes       []int
	Bound       int
	Filter      func(PCfg) bool
	Geos        []lz.BufConfig // overrides the grid built from BufSizes
	ResetKinds  []int
}

func resetLayers(tier string) []resetLayer {
	sa := []string{"GSAP", "OSAP"}
	if tier == "thorough" {
		return []resetLayer{
			{Name: "hash-wide", Kinds: HashKinds, Geos: wideGeos, Level: 2, Prior: Binary(6), Next: BinaryRange(1, 10), Modes: []int{0, 3}, Bound: 0},
			{Name: "hash", Kinds: HashKinds, BufSizes: []int{2, 3, 5, 8}, Level: 0, Prior: Binary(6), Next: BinaryRange(1, 7), Modes: []int{0, 1, 2, 3}, Bound: 0, Filter: tinyTables},
			{Name: "hash-b1", Kinds: HashKinds, BufSizes: []int{3, 8}, Level: 0, Prior: Binary(5), Next: BinaryRange(1, 6), Modes: []int{0, 2}, Bound: 1, Filter: tinyTables},
			{Name: "hash-long", Kinds: HashKinds, BufSizes: []int{16, 100}, Level: 0, Prior: Union(FewLong(40), FewLong(130)), Next: StructuredSet(33, 70), Modes: []int{0}, Bound: 0, Filter: tinyTables},
			{Name: "sa", Kinds: sa, BufSizes: []int{3, 8}, Level: 0, Prior: Binary(4), Next: BinaryRange(1, 5), Modes: []int{0, 2}, Bound: 0},
			{Name: "sa-long", Kinds: sa, BufSizes: []int{100}, Level: 0, Prior: FewLong(130), Next: FewLong(90), Modes: []int{0}, Bound: 0, Filter: wideOnly},
			{Name: "sa-multifill", Kinds: sa, Level: 1, Prior: Union(FewLong(13), FewLong(20)), Next: BinaryRange(1, 8), Modes: []int{0, 3}, Bound: 1, Geos: saMultifill.Geos},
			{Name: "sa-wide", Kinds: sa, Level: 1, Prior: BinaryRange(5, 8), Next: BinaryRange(4, 8), Modes: []int{0}, ResetKinds: []int{0, 2}, Bound: 0, Geos: saWide.Geos},
		}
	}
	return []resetLayer{
		saWide, saMultifill, // slowest shards first
		// zero bytes after a history of non-zero bytes, written in small chunks: whatever is read from the margin
		// behind the data (8-byte loads) must not reach the search structure
		{Name: "hash-zero-after-nonzero", Kinds: HashKinds, Geos: wideGeos[:2], Level: 2, Prior: BinaryRange(2, 4), Next: InputSet{"{0x00,a}^1..5", func(f func([]byte)) { Strings([]byte{0, 'a'}, 1, 5, f) }}, Modes: []int{0, 4}, ResetKinds: []int{0, 2, 3}, Bound: 1},
		// prior installed by Reset(data): the second Reset meets an array sized for the first one
		{Name: "hash-prior-by-reset", Kinds: HashKinds, Geos: wideGeos[:2], Level: 2, Prior: BinaryRange(1, 5), Next: BinaryRange(2, 7), Modes: []int{4}, ResetKinds: []int{1, 2}, Bound: 0},
		// priors long enough to fill and wrap every search structure (hash slots overwritten, bucket ring wrapped)
		// on the full set of search parameters, everything in one fill so that stale entries stay inside the window
		{Name: "hash-prior-long", Kinds: HashKinds, Geos: wideGeos[:2], Level: 1, Prior: Union(FewLong(12), BinaryRange(6, 6)), Next: BinaryRange(4, 6), Modes: []int{0}, ResetKinds: []int{0, 2}, Bound: 0},
		{Name: "hash-wide", Kinds: HashKinds, Geos: wideGeos, Level: 2, Prior: Binary(3), Next: BinaryRange(1, 7), Modes: []int{0}, ResetKinds: []int{0, 2}, Bound: 0},
		{Name: "hash", Kinds: HashKinds, BufSizes: []int{3, 8}, Level: 0, Prior: Binary(3), Next: BinaryRange(1, 5), Modes: []int{0, 2}, ResetKinds: []int{0, 3}, Bound: 0, Filter: tinyTables},
		{Name: "hash-b1", Kinds: HashKinds, BufSizes: []int{3}, Level: 2, Prior: Binary(3), Next: BinaryRange(1, 4), Modes: []int{0}, Bound: 1},
		{Name: "sa", Kinds: sa, BufSizes: []int{3, 8}, Level: 0, Prior: Binary(3), Next: BinaryRange(1, 4), Modes: []int{0}, Bound: 0, Filter: wideOrTiny},
		{Name: "sa-long", Kinds: sa, BufSizes: []int{100}, Level: 0, Prior: FewLong(130), Next: FewLong(90), Modes: []int{0}, Bound: 0, Filter: wideOnly},
	}
}

// saMultifill: the prior history needs two buffer fills (so the last sort /
// edge computation before Reset happened at a parse position > 0), the next
// input is parsed in small blocks.
var saMultifill = resetLayer{Name: "sa-multifill", Kinds: []string{"GSAP", "OSAP"}, Level: 0, Prior: FewLong(13), Next: BinaryRange(1, 6), Modes: []int{0}, ResetKinds: []int{0, 2}, Bound: 0,
	Geos: []lz.BufConfig{{BufferSize: 8, WindowSize: 8, BlockSize: 2}, {BufferSize: 8, WindowSize: 8, BlockSize: 3}, {BufferSize: 6, ShrinkSize: 3, WindowSize: 16, BlockSize: 2}}}

// saWide: prior and next fit into one fill and one or two blocks; what the
// previous sort left behind (suffix array, inverse, rank set) is as large as
// the next input.
var saWide = resetLayer{Name: "sa-wide", Kinds: []string{"GSAP", "OSAP"}, Level: 0, Prior: BinaryRange(6, 6), Next: BinaryRange(5, 6), Modes: []int{0}, ResetKinds: []int{0, 2}, Bound: 0,
	Geos: []lz.BufConfig{{BufferSize: 16, WindowSize: 16, BlockSize: 16}, {BufferSize: 16, WindowSize: 16, BlockSize: 4}}}

// wideGeos are geometries in which a whole short input fits into one buffer
// fill and one or a few blocks: stale search-structure entries need that to
// become visible.
var wideGeos = []lz.BufConfig{
	{BufferSize: 16, WindowSize: 16, BlockSize: 16},
	{BufferSize: 16, WindowSize: 16, BlockSize: 4},
	{BufferSize: 16, WindowSize: 5, BlockSize: 16},
	{BufferSize: 8, ShrinkSize: 2, WindowSize: 8, BlockSize: 5},
	{BufferSize: 6, ShrinkSize: 3, WindowSize: 16, BlockSize: 3},
}

// tinyTables keeps the configurations with the smallest hash tables (stale
// entries survive longest there).
func tinyTables(pc PCfg) bool {
	c := pc.Config()
	switch pc.Kind {
	case "HP", "BHP":
		return iField(c, "HashBits") == 1
	case "BUP":
		return iField(c, "HashBits") == 1
	case "DHP", "BDHP":
		return iField(c, "HashBits1") == 1
	}
	return true
}

// wideWindow keeps geometries whose window covers the buffer (stale entries can only be used inside the window).
func wideWindow(pc PCfg) bool {
	bc := pc.Config().BufConfig()
	bc.SetDefaults()
	return bc.WindowSize >= bc.BufferSize-1
}

func wideOrTiny(pc PCfg) bool {
	bc := pc.Config().BufConfig()
	bc.SetDefaults()
	return wideOnly(pc) || (bc.BlockSize <= 2 && bc.WindowSize >= bc.BufferSize)
}

func resetShards(tier string) []engine.Shard {
	return resetShardsFor("C13", resetLayers(tier), nil)
}

// resetShardsFor builds the shards of the reset-prior driver. With mkOracle
// == nil it is the differential check of C13 (reset parser vs. new parser);
// otherwise the property oracle is applied to the run of the reset parser.
func resetShardsFor(prop string, layers []resetLayer, mkOracle func() *Oracle) []engine.Shard {
	var shards []engine.Shard
	menu := Menu{WriteChunks: true, ReadFrom: true, NTL: true, ParseNil: prop != "C12", StopEarly: true, ShrinkDev: true, Reset: false}
	for _, l := range layers {
		l := l
		geo := Geometry(l.BufSizes)
		if l.Geos != nil {
			geo = l.Geos
		}
		rks := l.ResetKinds
		if rks == nil {
			rks = []int{0, 1, 2, 3}
		}
		for _, kind := range l.Kinds {
			var cfgs []PCfg
			for _, c := range Configs(kind, geo, l.Level) {
				if l.Filter == nil || l.Filter(c) {
					cfgs = append(cfgs, c)
				}
			}
			per := 4
			if kind == "GSAP" || kind == "OSAP" {
				per = 1 // a suffix sort per buffer fill: these shards are slow, keep them small
			}
			for lo := 0; lo < len(cfgs); lo += per {
				part := cfgs[lo:min(lo+per, len(cfgs))]
				shards = append(shards, engine.Shard{
					Name: fmt.Sprintf("%s/%s/%s/cfg%d", prop, l.Name, kind, lo),
					Run: func(st *engine.Stats, col *engine.Collector) {
						r := newResetRunner(st, col, menu)
						if mkOracle != nil {
							r.orc = mkOracle()
							r.hReset.Prop = prop
						}
						for _, pc := range part {
							r.hReset.States = map[uint64]struct{}{}
							r.hReset.Outcomes = map[uint64]struct{}{}
							pairs := int64(0)
							l.Prior.Each(func(prior []byte) {
								prior = append([]byte(nil), prior...)
								l.Next.Each(func(next []byte) {
									for _, mode := range l.Modes {
										for _, rk := range rks {
											r.run(pc, prior, mode, rk, next, l.Bound, mode == 0 && rk == 0 && len(prior) == 0)
										}
									}
									pairs++
								})
							})
							st.States += int64(len(r.hReset.States))
							st.Outcomes += int64(len(r.hReset.Outcomes))
							st.Nontrivial += pairs
							st.Add("configs", 1)
							st.Add("execs_reset_"+l.Name, 0)
						}
						if len(st.Samples) < 2 {
							st.Sample(map[string]any{"layer": l.Name, "kind": part[0].Kind, "cfg": part[0].JSON, "compares": "reset parser vs new parser, event by event"})
						}
					},
				})
			}
		}
	}
	return shards
}

func replayReset(raw json.RawMessage, col *engine.Collector) error {
	return replayResetFor("C13", nil, raw, col)
}

func replayResetFor(prop string, mkOracle func() *Oracle, raw json.RawMessage, col *engine.Collector) error {
	var rc RCase
	if err := json.Unmarshal(raw, &rc); err != nil {
		return err
	}
	prior, _ := hex.DecodeString(rc.Prior)
	next, _ := hex.DecodeString(rc.Next)
	var st engine.Stats
	menu := Menu{WriteChunks: true, ReadFrom: true, NTL: true, ParseNil: prop != "C12", StopEarly: true, ShrinkDev: true, Reset: false}
	r := newResetRunner(&st, col, menu)
	if mkOracle != nil {
		r.orc = mkOracle()
		r.hReset.Prop = prop
	}
	r.hReset.States = map[uint64]struct{}{}
	r.hReset.Outcomes = map[uint64]struct{}{}
	pc := PCfg{Kind: rc.Kind, JSON: rc.Cfg}
	// replay only the recorded choice sequence: bound 0 with the prefix forced
	h, f := r.hReset, r.hFresh
	_ = h
	_ = f
	forced := rc.Choices
	col2 := engine.NewCollector()
	r.hReset.Col, r.hFresh.Col = col2, col2
	// explore up to the number of deviations in the recorded choices and keep only the matching execution
	dev := 0
	for _, x := range forced {
		if x != 0 {
			dev++
		}
	}
	r.run(pc, prior, rc.PriorMode, rc.ResetKind, next, dev, rc.PriorMode == 0 && rc.ResetKind == 0 && len(prior) == 0)
	vs, _ := col2.All()
	for _, v := range vs {
		col.Report(v)
	}
	return nil
}

// ---- C13 concurrent part: distinct instances under every interleaving (operation level) ----

type threadScript struct {
	Name string
	Run  func(yield func()) []RecEv
}

func parserThread(kind string, cfg lz.ParserConfig, input []byte, withReset bool) threadScript {
	return threadScript{
		Name: fmt.Sprintf("%s(%q,reset=%v)", kind, input, withReset),
		Run: func(yield func()) []RecEv {
			var rec []RecEv
			add := func(op int, n int, err error, blk *lz.Block) {
				e := RecEv{Op: uint8(op), N: n}
				if err != nil {
					e.Err = err.Error()
				}
				if blk != nil {
					e.Seqs = append([]lz.Seq(nil), blk.Sequences...)
					e.Lits = append([]byte(nil), blk.Literals...)
				}
				rec = append(rec, e)
			}
			p, err := cfg.NewParser()
			if err != nil {
				panic(err)
			}
			yield()
			var blk lz.Block
			n, err := p.Write(input)
			add(opWrite, n, err, nil)
			yield()
			for i := 0; i < 2; i++ {
				n, err := p.Parse(&blk, 0)
				add(opParse, n, err, &blk)
				yield()
			}
			d := p.Shrink()
			add(opShrink, d, nil, nil)
			if n < len(input) {
				n, err := p.Write(input[n:])
				add(opWrite, n, err, nil)
				n, err = p.Parse(&blk, 0)
				add(opParse, n, err, &blk)
			}
			if !withReset {
				// Reset(nil) and a second, short stream on the same instance: whatever Reset gives up or keeps
				// must not reach another instance
				err := p.Reset(nil)
				add(opReset, 0, err, nil)
				yield()
				n, err := p.Write(input[:min(len(input), 3)])
				add(opWrite, n, err, nil)
				yield()
				n, err = p.Parse(&blk, 0)
				add(opParse, n, err, &blk)
			}
			if withReset {
				err := p.Reset(input[:min(len(input), p.BufferConfig().BufferSize)])
				add(opReset, 0, err, nil)
				yield()
				n, err = p.Parse(&blk, 0)
				add(opParse, n, err, &blk)
			}
			return rec
		},
	}
}

// shortThread has three scheduling points: NewParser | Write | Parse | Parse+Shrink.
func shortThread(kind string, cfg lz.ParserConfig, input []byte) threadScript {
	return threadScript{
		Name: fmt.Sprintf("%s(%q,short)", kind, input),
		Run: func(yield func()) []RecEv {
			var rec []RecEv
			add := func(op int, n int, err error, blk *lz.Block) {
				e := RecEv{Op: uint8(op), N: n}
				if err != nil {
					e.Err = err.Error()
				}
				if blk != nil {
					e.Seqs = append([]lz.Seq(nil), blk.Sequences...)
					e.Lits = append([]byte(nil), blk.Literals...)
				}
				rec = append(rec, e)
			}
			p, err := cfg.NewParser()
			if err != nil {
				panic(err)
			}
			yield()
			var blk lz.Block
			n, err := p.Write(input)
			add(opWrite, n, err, nil)
			yield()
			n, err = p.Parse(&blk, 0)
			add(opParse, n, err, &blk)
			yield()
			n, err = p.Parse(&blk, 0)
			add(opParse, n, err, &blk)
			add(opShrink, p.Shrink(), nil, nil)
			return rec
		},
	}
}

func decoderThread(blocks []lz.Block, w, b int) threadScript {
	return threadScript{
		Name: fmt.Sprintf("Decoder(W=%d,B=%d,%d blocks)", w, b, len(blocks)),
		Run: func(yield func()) []RecEv {
			var rec []RecEv
			var out bytes.Buffer
			d, err := lz.NewDecoder(&out, lz.DecoderConfig{WindowSize: w, BufferSize: b})
			if err != nil {
				panic(err)
			}
			yield()
			for _, blk := range blocks {
				n, k, l, err := d.WriteBlock(blk)
				e := RecEv{Op: 100, N: n*10000 + k*100 + l}
				if err != nil {
					e.Err = err.Error()
				}
				rec = append(rec, e)
				yield()
			}
			err = d.Flush()
			e := RecEv{Op: 101, Lits: append([]byte(nil), out.Bytes()...)}
			if err != nil {
				e.Err = err.Error()
			}
			rec = append(rec, e)
			return rec
		},
	}
}

// runInterleavings enumerates every operation-level interleaving of the scripts
// and compares each thread's trace with its solo trace.
func runInterleavings(name string, scripts []threadScript, st *engine.Stats, col *engine.Collector) {
	solo := make([][]RecEv, len(scripts))
	for i, s := range scripts {
		solo[i] = s.Run(func() {})
	}
	schedules := map[string]struct{}{}
	ex, pts := engine.Explore(1<<30, func(c *engine.Chooser) {
		got := make([][]RecEv, len(scripts))
		bodies := make([]func(yield func()), len(scripts))
		for i := range scripts {
			i := i
			bodies[i] = func(yield func()) { got[i] = scripts[i].Run(yield) }
		}
		order := engine.RunThreads(c, bodies)
		st.Transitions += int64(len(order))
		if len(schedules) < 100000 {
			schedules[fmt.Sprint(order)] = struct{}{}
		}
		for i := range scripts {
			if j, ok := recEqual(solo[i], got[i]); !ok {
				sig := "C13|concurrent|trace-differs"
				col.Report(engine.Violation{Property: "C13", Sig: sig,
					Case: map[string]any{"scenario": name, "schedule": order, "thread": scripts[i].Name},
					Msg:  fmt.Sprintf("scenario %s: thread %s differs from its solo run at event %d under schedule %v: %s vs solo %s", name, scripts[i].Name, j, order, fmtRec(got[i], j), fmtRec(solo[i], j))})
			}
		}
	})
	st.Execs += ex
	st.Points += pts
	st.States += int64(len(schedules))
	st.Add("interleavings", ex)
	st.Add("scenarios", 1)
	st.Nontrivial += int64(len(schedules))
	if len(st.Samples) < 3 {
		st.Sample(map[string]any{"scenario": name, "interleavings": ex})
	}
}

func concurrentShards(tier string) []engine.Shard {
	var shards []engine.Shard
	inputs := [][]byte{[]byte("ababab"), []byte("aaaaaaa"), []byte("abcabc")}
	mk := func(kind string) lz.ParserConfig {
		bc := lz.BufConfig{BufferSize: 5, ShrinkSize: 2, WindowSize: 5, BlockSize: 3}
		sp := SearchParams(kind, 0)[0]
		return Build(kind, bc, sp)
	}
	blocks := []lz.Block{
		{Literals: []byte("ab")},
		{Sequences: []lz.Seq{{LitLen: 1, MatchLen: 3, Offset: 2}}, Literals: []byte("c")},
		{Sequences: []lz.Seq{{LitLen: 0, MatchLen: 2, Offset: 1}}, Literals: []byte("xy")},
	}
	for i, k1 := range Kinds {
		for j, k2 := range Kinds {
			if j < i {
				continue
			}
			k1, k2 := k1, k2
			shards = append(shards, engine.Shard{Name: "C13/concurrent/" + k1 + "+" + k2, Run: func(st *engine.Stats, col *engine.Collector) {
				if delegateToChild("C13", "C13/concurrent/"+k1+"+"+k2, tier, st, col) {
					return
				}
				runInterleavings(k1+"+"+k2, []threadScript{
					parserThread(k1, mk(k1), inputs[0], false),
					parserThread(k2, mk(k2), inputs[1], true),
				}, st, col)
			}})
		}
		k1 := k1
		shards = append(shards, engine.Shard{Name: "C13/concurrent/" + k1 + "+Decoder", Run: func(st *engine.Stats, col *engine.Collector) {
			if delegateToChild("C13", "C13/concurrent/"+k1+"+Decoder", tier, st, col) {
				return
			}
			runInterleavings(k1+"+Decoder", []threadScript{
				parserThread(k1, mk(k1), inputs[2], false),
				decoderThread(blocks, 2, 4),
			}, st, col)
		}})
	}
	three := [][3]string{{"HP", "HP", "BUP"}, {"DHP", "BDHP", "DHP"}, {"GSAP", "OSAP", "GSAP"}, {"BUP", "BUP", "BUP"}}
	if tier != "thorough" {
		three = three[:2]
	}
	for _, t := range three {
		t := t
		shards = append(shards, engine.Shard{Name: fmt.Sprintf("C13/concurrent/%v", t), Run: func(st *engine.Stats, col *engine.Collector) {
			if delegateToChild("C13", fmt.Sprintf("C13/concurrent/%v", t), tier, st, col) {
				return
			}
			short := []byte("abab")
			runInterleavings(fmt.Sprint(t), []threadScript{
				shortThread(t[0], mk(t[0]), short),
				shortThread(t[1], mk(t[1]), short[:3]),
				shortThread(t[2], mk(t[2]), short[1:]),
			}, st, col)
		}})
	}
	return shards
}

// FreeRunningBodies runs the same thread bodies truly in parallel (used by the
// supporting -race test, not by the deciding check).
func FreeRunningBodies() {
	var wg sync.WaitGroup
	for _, sh := range concurrentShards("quick") {
		_ = sh
	}
	inputs := [][]byte{[]byte("abababababababab"), []byte("aaaaaaaaaaaaaaa"), []byte("abcabcabcabcabc")}
	for i, kind := range Kinds {
		for r := 0; r < 2; r++ {
			bc := lz.BufConfig{BufferSize: 5, ShrinkSize: 2, WindowSize: 5, BlockSize: 3}
			s := parserThread(kind, Build(kind, bc, SearchParams(kind, 0)[0]), inputs[(i+r)%3], r == 1)
			wg.Add(1)
			go func() { defer wg.Done(); s.Run(func() {}) }()
		}
	}
	wg.Wait()
}

func init() {
	register(&Check{
		ID: "C13",
		Shards: func(tier string) []engine.Shard {
			// the loop-level scenarios are the longest single shards: start them first
			shards := append(append(loopShards(tier), resetShards(tier)...), concurrentShards(tier)...)
			// component level: the rank set GSAP clears on Reset must behave like a new one afterwards (reused capacity)
			return append(shards, engine.Shard{Name: "C13/bitset-bfs", Run: func(st *engine.Stats, col *engine.Collector) {
				runBitsetBFS("C13", map[string]int{"quick": 6, "thorough": 7}[tier], st, col)
			}})
		},
		Replay: func(raw json.RawMessage, col *engine.Collector) error {
			var probe struct {
				Scenario  string `json:"scenario"`
				Loop      string `json:"loop_scenario"`
				Component string `json:"component"`
			}
			json.Unmarshal(raw, &probe)
			if probe.Loop != "" {
				return replayLoop(raw, col)
			}
			if probe.Component == "bitset" {
				return replayBS("C13", raw, col)
			}
			if probe.Scenario != "" {
				// re-run the whole scenario (all interleavings are enumerated again)
				var st engine.Stats
				for _, sh := range concurrentShards("thorough") {
					if sh.Name == "C13/concurrent/"+probe.Scenario {
						sh.Run(&st, col)
					}
				}
				return nil
			}
			return replayReset(raw, col)
		},
		Bounds: func(tier string) map[string]any {
			var ls []any
			for _, l := range resetLayers(tier) {
				ls = append(ls, map[string]any{"layer": l.Name, "parsers": l.Kinds, "buffer_sizes": l.BufSizes, "prior": l.Prior.Name, "next": l.Next.Name, "prior_modes": l.Modes, "reset_kinds": "Reset(nil), Reset(data) with spare capacity 0/7/64 (poisoned)", "deviation_bound": l.Bound})
			}
			return map[string]any{"sequential": ls,
				"concurrent_loop_level": map[string]any{"scenarios": func() []string {
					var n []string
					for _, sc := range LoopScenarios(tier) {
						n = append(n, fmt.Sprintf("%s (preemption bound %d)", sc.Name, loopBound(tier, sc)))
					}
					return n
				}(), "yield_points": "generated at build time by cmd/yieldgen: first statement of every function and every for/range body of package lz of the current tree (go build -overlay); several hundred dynamic points per execution (max_yield_points_per_execution)",
					"thread_script": "NewParser, default Write/Parse/Shrink loop over the input, Reset(nil) + second stream, Reset(data) + third stream; Decoder threads write the blocks of a solo parser run and Flush",
					"oracle":        "each thread's observations equal those of the same script run alone"},
				"concurrent": "operation-level: 2 threads (every unordered pair of the seven parser types, one thread ending with Reset(data)+Parse; every parser type with a Decoder) and 3-thread scenarios; distinct instances; ALL interleavings of the yield points between API calls are enumerated (no preemption bound)"}
		},
		Rule:        "sequential: cases are (configuration, prior input, prior mode, Reset kind, next input, choice sequence); distinct_nontrivial counts (configuration, prior, next) triples; concurrent: distinct schedules (sequence of thread ids)",
		Explanation: "a parser that was used and Reset is compared event by event (n, err, sequences, literals of every call) with a new parser given the same calls; two new parsers are compared for determinism; distinct instances are run under every operation-level interleaving of a cooperative scheduler and each thread's trace is compared with its solo trace",
		StatesNote:  "states = distinct parser state hashes of the reset parser + distinct schedules; transitions = API calls + scheduling steps on the real code",
		Assumptions: []string{"goroutine schedules are enumerated at API-call granularity only; data races inside a call are left to the supporting free-running -race run (bin/race)", "inputs/configurations bounded as stated"},
	})
}

var _ = io.EOF
