package harness

import (
	"bytes"
	"encoding/hex"
	"encoding/json"
	"fmt"
	"sort"
	"sync"

	"github.com/ulikunitz/lz"
	"verif/mc/engine"
)

// ---- C16: accepted configurations never panic, hang or fail spuriously ----

// OracleC16 judges a parser-history execution: no panic, only documented
// errors, every Parse makes progress.
func OracleC16() *Oracle {
	return &Oracle{
		Panic: func(h *Hist, r any) {
			if pp, ok := r.(progressPanic); ok {
				h.Fail("no-progress", "%s (ops %s)", pp.msg, h.OpsString())
				return
			}
			h.Fail("panic|"+panicClass(r), "a parser call panicked: %v (ops %s)", r, h.OpsString())
		},
		Parse: func(h *Hist, ev *ParseEv) {
			if ev.Err != nil && ev.Err != lz.ErrEmptyBuffer {
				h.Fail("parse-error", "Parse returned the undocumented error %v (unparsed %d)", ev.Err, ev.Unparsed)
				return
			}
			if ev.Err == lz.ErrEmptyBuffer && ev.Unparsed > 0 {
				h.Fail("spurious-empty", "Parse returned ErrEmptyBuffer with %d unparsed bytes buffered", ev.Unparsed)
			}
			if ev.Err == nil && (ev.N <= 0 || ev.N > ev.Unparsed) {
				h.Fail("parse-no-progress", "Parse returned n=%d, nil with %d unparsed bytes", ev.N, ev.Unparsed)
			}
		},
	}
}

// panicClass normalises a panic value for the violation signature: digits are
// replaced, the text is cut, so that different defects keep different signatures.
func panicClass(r any) string {
	s := fmt.Sprint(r)
	var b []byte
	for i := 0; i < len(s) && len(b) < 48; i++ {
		c := s[i]
		if c >= '0' && c <= '9' {
			if len(b) == 0 || b[len(b)-1] != '#' {
				b = append(b, '#')
			}
			continue
		}
		b = append(b, c)
	}
	return string(b)
}

// driveClass maps a defaults-completed configuration to the class of
// configurations that behave identically on small data: every size of 2^20 or
// more is "huge". Part B drives one representative (the largest) per class.
func driveClass(c lz.ParserConfig) (key string, weight float64) {
	m := fieldsOf(c)
	names := make([]string, 0, len(m))
	for k := range m {
		names = append(names, k)
	}
	sort.Strings(names)
	for _, k := range names {
		if v, ok := m[k].(int); ok {
			if v >= 1<<20 {
				key += k + "=huge,"
				weight += float64(v)
			} else {
				key += fmt.Sprintf("%s=%d,", k, v)
			}
		} else {
			key += fmt.Sprintf("%s=%v,", k, m[k])
		}
	}
	return
}

// smallTables tells whether creating a parser of the (defaults-completed)
// configuration is cheap enough to do it once per execution.
func smallTables(c lz.ParserConfig) bool {
	switch x := c.(type) {
	case *lz.HPConfig:
		return x.HashBits <= 10
	case *lz.BHPConfig:
		return x.HashBits <= 10
	case *lz.DHPConfig:
		return x.HashBits1 <= 10 && x.HashBits2 <= 10
	case *lz.BDHPConfig:
		return x.HashBits1 <= 10 && x.HashBits2 <= 10
	case *lz.BUPConfig:
		return (1<<uint(x.HashBits))*x.BucketSize <= 1<<12
	}
	return true
}

// acceptedConfigs enumerates all clauses of a kind and returns the distinct
// accepted configurations (defaults-completed), small-table ones first.
var acceptedCache sync.Map

func acceptedConfigs(kind string) (small, big []PCfg) {
	type res struct{ small, big []PCfg }
	if v, ok := acceptedCache.Load(kind); ok {
		r := v.(res)
		return r.small, r.big
	}
	type rep struct {
		pc     PCfg
		weight float64
		small  bool
	}
	classes := map[string]*rep{}
	var order []string
	var st engine.Stats
	r := &cfgRun{prop: "-", st: &st, col: engine.NewCollector()}
	for _, clause := range cfgClauses {
		EnumConfigs(kind, clause, func(f Fields) {
			engine.Progress.Add(1)
			c := r.checkNewParser(f)
			if c == nil {
				return
			}
			b, err := json.Marshal(c)
			if err != nil {
				return
			}
			key, w := driveClass(c)
			if old, ok := classes[key]; ok {
				if w > old.weight {
					old.pc, old.weight = PCfg{Kind: kind, JSON: string(b)}, w
				}
				return
			}
			classes[key] = &rep{PCfg{Kind: kind, JSON: string(b)}, w, smallTables(c)}
			order = append(order, key)
		})
	}
	for _, k := range order {
		if classes[k].small {
			small = append(small, classes[k].pc)
		} else {
			big = append(big, classes[k].pc)
		}
	}
	acceptedCache.Store(kind, res{small, big})
	return
}

func c16Inputs(tier string, small bool, sa bool) InputSet {
	if small && sa {
		// every buffer fill of a suffix array parser costs a 0.5 ms sort
		if tier == "thorough" {
			return Union(Binary(4), FewLong(12), FewLong(33))
		}
		return Union(Binary(3), FewLong(12))
	}
	if !small {
		return InputSet{"{aab, abababab, a^40}", func(f func([]byte)) {
			f([]byte("aab"))
			f([]byte("abababab"))
			f(bytes.Repeat([]byte("a"), 40))
		}}
	}
	if tier == "thorough" {
		return Union(Binary(6), FewLong(20), FewLong(41))
	}
	return Union(Binary(4), FewLong(20))
}

func c16Shards(tier string) []engine.Shard {
	// part A: NewParser <=> SetDefaults+Verify over the enumerated configuration space
	shards := cfgShards("C16", func(r *cfgRun, f Fields) { r.checkNewParser(f) })
	// part B: drive every accepted configuration, directly and through Wrap
	for _, kind := range Kinds {
		for _, small := range []bool{true, false} {
			for part := 0; part < 8; part++ {
				kind, small, part := kind, small, part
				shards = append(shards, engine.Shard{
					Name: fmt.Sprintf("C16/drive/%s/small%v/part%d", kind, small, part),
					Run: func(st *engine.Stats, col *engine.Collector) {
						sm, bg := acceptedConfigs(kind)
						cfgs := bg
						bound := 0
						if small {
							cfgs, bound = sm, 1
							if (kind == "GSAP" || kind == "OSAP") && tier != "thorough" {
								bound = 0
							}
						}
						menu := FullMenu
						orc := OracleC16()
						h := &Hist{St: st, Col: col, Prop: "C16", Menu: menu}
						wr := &wrapRun{st: st, col: col, prop: "C16", ntl: true, reset: true}
						inputs := c16Inputs(tier, small, kind == "GSAP" || kind == "OSAP")
						for i, pc := range cfgs {
							if i%8 != part {
								continue
							}
							h.PC = pc
							wr.pc, wr.cfg = pc, pc.Config()
							inputs.Each(func(in []byte) {
								st.SetNote(fmt.Sprintf("%s %s input %q (direct and through Wrap, deviation bound %d)", pc.Kind, pc.JSON, in, bound))
								h.Input = in
								ex, pts := engine.Explore(bound, func(c *engine.Chooser) {
									h.C = c
									RunParserHist(h, orc)
								})
								st.Points += pts
								st.Add("execs_drive_direct", ex)
								wr.input = in
								ex, pts = engine.Explore(bound, wr.run)
								st.Points += pts
								st.Add("execs_drive_wrap", ex)
							})
							st.Add("configs_driven", 1)
							st.Nontrivial++
							if len(st.Samples) < 1 && i > 20 {
								st.Sample(map[string]any{"driven": pc.JSON, "small_tables": small, "deviation_bound": bound})
							}
						}
					},
				})
			}
		}
	}
	// part C: Reset with caller slices of every capacity relation (the hash parsers load 8 bytes at a time
	// and rely on a 7-byte margin behind the data that Reset, Write and Shrink must preserve)
	shards = append(shards, parserShards("C16", c16ResetLayers(tier), OracleC16)...)
	return shards
}

func c16ResetLayers(tier string) []Layer {
	menu := Menu{Reset: true, Restart: true, WriteChunks: true, ReadFrom: true}
	geos := []lz.BufConfig{{BufferSize: 8, WindowSize: 8, BlockSize: 4}, {BufferSize: 16, WindowSize: 16, BlockSize: 16}, {BufferSize: 5, WindowSize: 3, BlockSize: 2, ShrinkSize: 1}}
	if tier == "thorough" {
		return []Layer{{Name: "reset-capacity", Kinds: Kinds, Geos: append(geos, lz.BufConfig{BufferSize: 1024, WindowSize: 64, BlockSize: 512}), Level: 0, Inputs: Union(BinaryRange(3, 7), FewLong(20)), Menu: menu, Bound: 3, NoTrack: true}}
	}
	return []Layer{
		{Name: "reset-capacity", Kinds: HashKinds, Geos: geos, Level: 2, Inputs: Union(BinaryRange(4, 5), FewLong(12)), Menu: menu, Bound: 2, NoTrack: true},
		// Reset with a caller slice, then ReadFrom, then Write without a Parse in between: three deviations, one geometry
		{Name: "reset-readfrom-write", Kinds: HashKinds, Geos: geos[:1], Level: 2, Inputs: FewLong(12), Menu: Menu{Restart: true, ReadFrom: true, StopEarly: true}, Bound: 3, NoTrack: true},
	}
}

func init() {
	register(&Check{
		ID:     "C16",
		Shards: c16Shards,
		Replay: func(raw json.RawMessage, col *engine.Collector) error {
			var probe struct {
				Check *string `json:"check"`
				Kind  string  `json:"kind"`
				NTL   *bool   `json:"offer_no_trailing_literals"`
			}
			json.Unmarshal(raw, &probe)
			switch {
			case probe.Check != nil:
				return replayCfg("C16", raw, col, func(r *cfgRun, f Fields) { r.checkNewParser(f) })
			case probe.NTL != nil:
				return replayWrap("C16", raw, col)
			}
			return replayParser("C16", raw, OracleC16, col)
		},
		Bounds: func(tier string) map[string]any {
			return map[string]any{
				"part_A": map[string]any{"size_fields": sizeDomain, "clauses": "buffer: full product of the four size fields x search fields at {all zero, small valid}; search: full product of the search fields (+Cost for OSAP) x buffer fields at {all zero, small valid, invalid}; cross: every (buffer field value, search field value) pair on the small valid baseline; thin-full: full product of all fields over thinned domains",
					"InputLen": fieldDomain("HP", "InputLen", false), "HashBits": fieldDomain("HP", "HashBits", false), "BucketSize": fieldDomain("BUP", "BucketSize", false), "MinMatchLen/MaxMatchLen": fieldDomain("OSAP", "MinMatchLen", false),
					"memory_guard": "combinations whose tables would exceed ~64 MiB when accepted are skipped (the property is bounded by memory)"},
				"part_B": map[string]any{"configs": "every distinct accepted configuration of part A (defaults-completed)", "small_tables": "deviation bound 1 over " + c16Inputs(tier, true, false).Name, "default_or_large_tables": "deviation bound 0 over " + c16Inputs(tier, false, false).Name,
					"drivers": "parser-history driver (full menu) and WrappedParser over the scripted reader (C08 driver; only panics, spins and undocumented errors are judged here)"},
				"part_C": layerBounds(c16ResetLayers(tier)),
			}
		},
		Rule:        "part A: cases are configurations (field tuples), distinct by construction; part B: (accepted configuration, input, choice sequence); distinct_nontrivial counts distinct configurations enumerated plus configurations driven",
		Explanation: "NewParser never panics and accepts exactly the configurations whose defaults-completed form passes Verify (reported configuration = defaults-completed input); every accepted configuration - including ShrinkSize = BufferSize, BufferSize < InputLen, WindowSize 1, BlockSize 1, extreme HashBits, MinMatchLen = MaxMatchLen, sizes near 2^32 - is driven through the history driver and through Wrap: no panic, only documented errors, every call makes progress",
		StatesNote:  "states = distinct configurations enumerated; transition = one API call on the real code",
		Assumptions: []string{"tables above ~64 MiB are not allocated", "huge buffer/window/block sizes are exercised with small data only", "loops that contain no environment call are guarded by the process watchdog only"},
	})

	// ---- C20 ----
	register(&Check{
		ID: "C20",
		Shards: func(tier string) []engine.Shard {
			shards := cfgShards("C20", func(r *cfgRun, f Fields) { r.checkConfigValue(f) })
			shards = append(shards, engine.Shard{Name: "C20/json-rejection", Run: func(st *engine.Stats, col *engine.Collector) {
				r := &cfgRun{prop: "C20", st: st, col: col}
				docs := jsonDocs()
				for _, d := range docs {
					r.checkDoc(d)
				}
				st.Add("json_documents", int64(len(docs)))
				st.Nontrivial += int64(len(docs))
				st.Sample(map[string]any{"rejection_document": docs[len(docs)/2].text})
			}})
			// reported configuration creates an identically behaving parser
			for _, kind := range Kinds {
				kind := kind
				shards = append(shards, engine.Shard{Name: "C20/reported-config/" + kind, Run: func(st *engine.Stats, col *engine.Collector) {
					sm, bg := acceptedConfigs(kind)
					r := &cfgRun{prop: "C20", st: st, col: col}
					check := func(pc PCfg, inputs InputSet) { checkReported(r, pc, inputs) }
					inSmall, inBig := Binary(6), c16Inputs(tier, false, false)
					if tier == "thorough" {
						inSmall = Binary(8)
					}
					if kind == "GSAP" || kind == "OSAP" {
						// every buffer fill costs a suffix sort (0.5 ms): fewer inputs for the thousands of accepted geometries
						inSmall = Union(Binary(3), FewLong(12))
						if tier == "thorough" {
							inSmall = Union(Binary(5), FewLong(12), FewLong(33))
						}
					}
					st.Add("accepted_small_"+kind, int64(len(sm)))
					st.Add("accepted_big_"+kind, int64(len(bg)))
					for _, pc := range sm {
						check(pc, inSmall)
					}
					for _, pc := range bg {
						check(pc, inBig)
					}
					st.Nontrivial += int64(len(sm) + len(bg))
				}})
			}
			return shards
		},
		Replay: func(raw json.RawMessage, col *engine.Collector) error {
			return replayCfg("C20", raw, col, func(r *cfgRun, f Fields) { r.checkConfigValue(f) })
		},
		Bounds: func(tier string) map[string]any {
			return map[string]any{"configuration_space": "as C16 part A (clauses buffer, search, cross, thin-full) for all seven types", "json_rejection_grammar": "Type in {absent,null,7,\"\",hp,'HP ',' HP',XX,Hp,[HP],lower-case key, each real name} x fields {none, known, known buffer field, unknown, wrong-typed string, wrong-typed float} x damage {none, truncated, trailing comma, wrapped in array} + 10 non-object documents; every document is also unmarshalled into all seven configuration types",
				"reported_config": "every accepted configuration: ParserConfig()/BufferConfig() vs defaults-completed input and block-for-block comparison of parsers made from both on all binary strings up to 6 (thorough 8) for small tables, three inputs otherwise"}
		},
		Rule:        "cases are configurations (field tuples) and JSON documents, distinct by construction",
		Explanation: "ParseJSON(json.Marshal(&cfg)) has the same type and fields; documents with unknown, missing or mismatching Type are rejected (also by json.Unmarshal into a configuration of another type); Clone is equal and independent in both directions; SetDefaults is idempotent and never changes a non-zero field; the configuration a parser reports equals the defaults-completed input and makes an identically behaving parser",
		StatesNote:  "states = distinct configurations; transition = one configuration method / ParseJSON / Parse call",
		Assumptions: []string{"field values are limited to the boundary domains listed", "configurations are processed in a fixed order per worker; a replay re-runs the three configurations processed before the failing one"},
	})
}

var _ = hex.EncodeToString
