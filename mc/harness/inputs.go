package harness

// Strings enumerates every string over alphabet with length in [minLen,maxLen],
// shortest first, in lexicographic order of alphabet indexes.
func Strings(alphabet []byte, minLen, maxLen int, f func(s []byte)) {
	for n := minLen; n <= maxLen; n++ {
		s := make([]byte, n)
		idx := make([]int, n)
		for i := range s {
			s[i] = alphabet[0]
		}
		for {
			f(s)
			i := n - 1
			for i >= 0 {
				idx[i]++
				if idx[i] < len(alphabet) {
					s[i] = alphabet[idx[i]]
					break
				}
				idx[i] = 0
				s[i] = alphabet[0]
				i--
			}
			if i < 0 {
				break
			}
		}
	}
}

// CountStrings returns the number of strings Strings enumerates.
func CountStrings(k, minLen, maxLen int) int64 {
	var t int64
	for n := minLen; n <= maxLen; n++ {
		x := int64(1)
		for i := 0; i < n; i++ {
			x *= int64(k)
		}
		t += x
	}
	return t
}

// Fibonacci returns the prefix of length n of the Fibonacci word over a,b.
func Fibonacci(n int, a, b byte) []byte {
	x, y := []byte{a}, []byte{a, b}
	for len(y) < n {
		x, y = y, append(append([]byte{}, y...), x...)
	}
	return y[:n]
}

// ThueMorse returns the prefix of length n of the Thue-Morse word.
func ThueMorse(n int, a, b byte) []byte {
	s := make([]byte, n)
	for i := range s {
		c := 0
		for x := i; x > 0; x &= x - 1 {
			c ^= 1
		}
		if c == 0 {
			s[i] = a
		} else {
			s[i] = b
		}
	}
	return s
}

// PeriodDoubling returns the prefix of length n of the period-doubling word.
func PeriodDoubling(n int, a, b byte) []byte {
	s := make([]byte, n)
	for i := range s {
		// number of trailing zeros of i+1 even -> a, odd -> b
		c := 0
		for x := i + 1; x&1 == 0; x >>= 1 {
			c ^= 1
		}
		if c == 0 {
			s[i] = a
		} else {
			s[i] = b
		}
	}
	return s
}

// DeBruijn returns the de Bruijn word B(k,n) over the first k letters of alphabet.
func DeBruijn(alphabet []byte, n int) []byte {
	k := len(alphabet)
	a := make([]int, k*n+1)
	var seq []byte
	var db func(t, p int)
	db = func(t, p int) {
		if t > n {
			if n%p == 0 {
				for _, x := range a[1 : p+1] {
					seq = append(seq, alphabet[x])
				}
			}
			return
		}
		a[t] = a[t-p]
		db(t+1, p)
		for j := a[t-p] + 1; j < k; j++ {
			a[t] = j
			db(t+1, t)
		}
	}
	db(1, 1)
	return seq
}

// Structured enumerates the structured long family F(n) of DESIGN.md section 4
// for one length n over the letters a,b,c: runs, runs with one foreign byte,
// periodic words for every unit of length 1..3 with zero or one perturbed
// position, Fibonacci, Thue-Morse and period-doubling prefixes.
func Structured(n int, a, b, c byte, f func(name string, s []byte)) {
	if n <= 0 {
		return
	}
	mk := func(unit []byte) []byte {
		s := make([]byte, n)
		for i := range s {
			s[i] = unit[i%len(unit)]
		}
		return s
	}
	letters := []byte{a, b, c}
	seen := map[string]bool{}
	emit := func(name string, s []byte) {
		if seen[string(s)] {
			return
		}
		seen[string(s)] = true
		f(name, s)
	}
	for ul := 1; ul <= 3; ul++ {
		Strings(letters, ul, ul, func(u []byte) {
			unit := append([]byte{}, u...)
			s := mk(unit)
			emit("periodic", s)
			for _, pos := range []int{0, n / 2, n - 1} {
				for _, l := range letters {
					if s[pos] == l {
						continue
					}
					t := append([]byte{}, s...)
					t[pos] = l
					emit("periodic-perturbed", t)
				}
			}
		})
	}
	emit("fibonacci", Fibonacci(n, a, b))
	emit("thue-morse", ThueMorse(n, a, b))
	emit("period-doubling", PeriodDoubling(n, a, b))
}

// LargeTexts returns four deterministic texts of n bytes whose parsing
// crosses the 32 KiB read chunk of ReadFrom, several buffer fills of tens of
// kilobytes and offsets/lengths beyond 2^16: a de Bruijn word over four
// letters (every 8-gram once: few matches), a Fibonacci word (long matches at
// many distances) and a text made of dictionary words chosen by a quadratic
// residue pattern (natural-language-like match statistics).
func LargeTexts(n int) [][]byte {
	db := DeBruijn([]byte("acgt"), 8) // 65536 letters
	for len(db) < n {
		db = append(db, db...)
	}
	words := []string{"the ", "quick ", "brown ", "fox ", "jumps ", "over ", "lazy ", "dog ", "and ", "lempel ", "ziv ", "window ", "buffer ", "match ", "literal ", "offset ", "\n"}
	var txt []byte
	for i := 0; len(txt) < n; i++ {
		txt = append(txt, words[(i*i+3*i)%len(words)]...)
		if i%97 == 0 {
			txt = append(txt, byte('0'+i%10), 0, 0xff)
		}
	}
	per := make([]byte, n)
	for i := range per {
		per[i] = "abcde"[i%5] // one match of n-5 bytes at offset 5 (not a power of two): lengths far beyond 2^16
	}
	return [][]byte{db[:n], Fibonacci(n, 'a', 'b'), txt[:n], per}
}
