package harness

import (
	"encoding/hex"
	"errors"
	"fmt"
	"hash/fnv"
	"hash/maphash"
	"io"
	"strings"

	"github.com/ulikunitz/lz"
	"verif/mc/engine"
)

// Menu selects which deviations from the default history the driver offers.
type Menu struct {
	WriteChunks bool // Write of 1, 2 or 3 bytes instead of everything that fits
	ReadFrom    bool // feed through ReadFrom with plain, one-byte and data+EOF readers
	NTL         bool // Parse with NoTrailingLiterals
	ParseNil    bool // Parse(nil, 0), once or until the buffer is drained
	StopEarly   bool // stop parsing early and append more data
	ShrinkDev   bool // skip Shrink, Shrink twice, Shrink while unparsed data is buffered
	Reset       bool // Reset(nil) and Reset(data) with several capacities
	Trickle     bool // not a deviation but another default history: Write BlockSize+1 bytes, ONE Parse, write again ... (data is appended while unparsed data is pending), drain at the end
	Restart     bool // Reset(data) that restarts the stream from the beginning of the input (1 byte with 7 spare bytes, or a full buffer without spare capacity)
}

// FullMenu offers every deviation.
var FullMenu = Menu{WriteChunks: true, ReadFrom: true, NTL: true, ParseNil: true, StopEarly: true, ShrinkDev: true, Reset: true}

// PCase identifies one execution of the parser-history driver.
type PCase struct {
	Kind    string `json:"kind"`
	Cfg     string `json:"cfg"`
	Input   string `json:"input_hex"`
	Menu    Menu   `json:"menu"`
	Choices []int  `json:"choices"`
	Text    string `json:"input_text,omitempty"`
	Ops     string `json:"ops,omitempty"`
}

// RecEv is one recorded observable result.
type RecEv struct {
	Op   uint8
	N    int
	Err  string
	Seqs []lz.Seq
	Lits []byte
}

func (h *Hist) record(op int, n int, err error, blk *lz.Block) {
	if !h.Record {
		return
	}
	e := RecEv{Op: uint8(op), N: n}
	if err != nil {
		e.Err = err.Error()
	}
	if blk != nil {
		e.Seqs = append([]lz.Seq(nil), blk.Sequences...)
		e.Lits = append([]byte(nil), blk.Literals...)
	}
	h.Rec = append(h.Rec, e)
}

// ParseEv describes one Parse call.
type ParseEv struct {
	Flags     int
	Nil       bool
	N         int
	Err       error
	PosBefore int // absolute stream position before the call
	OffBefore int // absolute offset of the buffer start at the call
	Unparsed  int // buffered unparsed bytes before the call
	Blk       *lz.Block
}

// Oracle is the set of callbacks a property check installs.
type Oracle struct {
	Parse func(h *Hist, ev *ParseEv)
	// Op is called after every non-Parse operation. name is one of write,
	// readfrom, shrink, reset.
	Op  func(h *Hist, name string)
	End func(h *Hist)
	// Panic is called when a call into the parser panicked. Without it the
	// panic is recovered and counted (panics are the business of the checks
	// whose property forbids them: C15, C16), the execution ends there.
	Panic func(h *Hist, r any)
}

// Hist is the state of one execution: the real parser plus the model.
type Hist struct {
	PC       PCfg
	Cfg      lz.ParserConfig // defaults-completed
	BC       lz.BufConfig    // defaults-completed
	MinMatch int
	MaxMatch int
	Menu     Menu
	Input    []byte

	P lz.Parser

	// model
	Stream []byte // bytes accepted since the last Reset
	Off    int    // absolute offset of the first buffered byte
	Pos    int    // absolute parse position
	Resets int
	Fills  int
	// SkippedFrom marks stream positions that were consumed by Parse(nil)
	// since the last Reset (C12 excludes such histories).
	NilUsed bool

	// NewParserFn, if set, supplies the parser instance (C13 hands in a
	// parser that has a history and was Reset).
	NewParserFn func(cfg lz.ParserConfig) lz.Parser
	// Preload is the prefix of Input the supplied parser already buffers.
	Preload []byte
	// CaseFn, if set, builds the replayable case (drivers that wrap the
	// history driver, e.g. the reset-prior driver, need more than PCase).
	CaseFn func() any
	// Record switches on the recording of every observable result in Rec.
	Record bool
	Rec    []RecEv

	// Last describes the most recent Write/ReadFrom/Shrink for the Op oracle.
	Last struct {
		Arg    int // bytes offered (Write: len(p); ReadFrom: bytes the reader had)
		N      int // result
		Given  int // ReadFrom: bytes the reader handed out
		BufLen int // bytes buffered before the call (Shrink: parsed bytes W before the call)
		Err    error
	}

	C       *engine.Chooser
	St      *engine.Stats
	Col     *engine.Collector
	Prop    string
	Blk     lz.Block
	oplog   []opRec // compact operation log for samples/replay display
	cfgVal  lz.ParserConfig
	scratch []byte
	cfgFor  string
	outcome uint64
	failed  bool
	seqStore [4]lz.Seq
	litStore [16]byte
	// InNilParse tells a Panic oracle that the panicking call was Parse(nil, ...).
	InNilParse bool
	inLib      bool // a call into the library under test is in progress (panics elsewhere are harness bugs)

	States   map[uint64]struct{}
	Outcomes map[uint64]struct{}
	Track    bool
}

// Buf returns the model of the parser's buffer contents.
func (h *Hist) Buf() []byte { return h.Stream[h.Off:] }

// W returns the model parse position relative to the buffer start.
func (h *Hist) W() int { return h.Pos - h.Off }

// Case builds the replayable description of the current execution.
func (h *Hist) Case() PCase {
	return PCase{Kind: h.PC.Kind, Cfg: h.PC.JSON, Input: hex.EncodeToString(h.Input), Menu: h.Menu,
		Choices: h.C.Choices(), Text: printable(h.Input), Ops: h.OpsString()}
}

func printable(b []byte) string {
	for _, c := range b {
		if c < 0x20 || c > 0x7e {
			return ""
		}
	}
	return string(b)
}

// Fail reports a violation of the property being checked.
// driverSigOwners maps the anomalies the history driver itself notices to the
// properties whose statements cover them. A check for another property counts
// such an anomaly and ends the execution, it does not report it: a defect of
// the buffer contract or of progress is not a violation of, say, match
// maximality.
var driverSigOwners = map[string]string{
	"reset-error":             "C13 C15 C16",
	"reset-oversize-accepted": "C15 C16",
	"shrink-range":            "C15 C16",
	"write-range":             "C15 C16",
	"write-error":             "C15 C16",
	"readfrom-range":          "C01 C15 C16",
	"readfrom-error":          "C15 C16",
	"parse-loop":              "C03 C14 C16",
	"no-progress":             "C03 C14 C16",
}

func (h *Hist) Fail(sig, format string, a ...any) {
	if owners, ok := driverSigOwners[sig]; ok && !strings.Contains(owners, h.Prop) {
		h.St.Add("driver_anomalies_left_to_"+strings.ReplaceAll(owners, " ", "/"), 1)
		return
	}
	h.failed = true
	full := h.Prop + "|" + h.PC.Kind + "|" + sig
	if h.Col.Seen(full) {
		// still count it
		h.Col.Report(engine.Violation{Property: h.Prop, Sig: full, Rank: 1 << 60})
		return
	}
	var cs any = h.Case()
	if h.CaseFn != nil {
		cs = h.CaseFn()
	}
	h.Col.Report(engine.Violation{
		Property: h.Prop, Sig: full, Msg: fmt.Sprintf(format, a...), Case: cs,
		Rank: int64(h.C.Deviations())<<32 + int64(len(h.Input))<<16 + int64(len(h.C.Cs)),
	})
}

// op codes of the compact operation log
const (
	opWrite = iota
	opReadPlain
	opReadByte
	opReadEOF
	opReset
	opParse
	opParseNTL
	opParseNil
	opShrink
)

var opNames = [...]string{"Write", "ReadFrom", "ReadFrom1", "ReadFromEOF", "Reset", "Parse", "ParseNTL", "ParseNil", "Shrink"}

type opRec struct {
	op  uint8
	arg int32
	res int32
}

func (h *Hist) logOp(op int, arg, res int) {
	if len(h.oplog) < 200 {
		h.oplog = append(h.oplog, opRec{uint8(op), int32(arg), int32(res)})
	}
}

// OpsString renders the operation log.
func (h *Hist) OpsString() string {
	var sb []byte
	for _, r := range h.oplog {
		switch int(r.op) {
		case opWrite, opReset:
			sb = append(sb, fmt.Sprintf("%s(%d)=%d ", opNames[r.op], r.arg, r.res)...)
		default:
			sb = append(sb, fmt.Sprintf("%s=%d ", opNames[r.op], r.res)...)
		}
	}
	return string(sb)
}

func (h *Hist) mix(x uint64) {
	h.outcome = (h.outcome ^ x) * 1099511628211
}

var stateSeed = maphash.MakeSeed()

// errAbort is used by scripted readers and drivers to leave a spinning call.
var errAbort = errors.New("harness: abort (no progress)")

type progressPanic struct{ msg string }

// sliceReader hands out data according to a chunk limit; it records what it
// handed out.
type sliceReader struct {
	data    []byte
	chunk   int  // maximum bytes per call (0: unlimited)
	withEOF bool // return io.EOF together with the last data
	given   int
	calls   int
	idle    int
}

func (r *sliceReader) Read(p []byte) (int, error) {
	r.calls++
	if len(r.data) == 0 {
		r.idle++
		if r.idle > 4 {
			panic(progressPanic{"reader called again and again after EOF"})
		}
		return 0, io.EOF
	}
	n := len(p)
	if r.chunk > 0 && n > r.chunk {
		n = r.chunk
	}
	if n > len(r.data) {
		n = len(r.data)
	}
	if n == 0 {
		r.idle++
		if r.idle > 4 {
			panic(progressPanic{"reader called with empty slice again and again"})
		}
		return 0, nil
	}
	r.idle = 0
	copy(p, r.data[:n])
	r.data = r.data[n:]
	r.given += n
	if r.withEOF && len(r.data) == 0 {
		return n, io.EOF
	}
	return n, nil
}

// RunParserHist executes one history. It must be a deterministic function of
// (h.PC, h.Input, h.Menu, chooser).
func RunParserHist(h *Hist, orc *Oracle) {
	defer func() {
		r := recover()
		if r == nil {
			return
		}
		// harness errors (bad configuration, replay divergence) are not the library's
		if _, ok := r.(engine.ReplayDivergence); ok {
			panic(r)
		}
		if e, ok := r.(error); ok && strings.HasPrefix(e.Error(), "harness:") {
			panic(r)
		}
		if !h.inLib {
			// the panic did not happen inside a call into the library: a bug of this harness, never a finding
			panic(fmt.Errorf("harness: panic outside the library: %v", r))
		}
		h.inLib = false
		h.St.Pruned++
		if orc.Panic != nil {
			orc.Panic(h, r)
			return
		}
		h.St.Add("panics_recovered_and_left_to_C16", 1)
	}()
	runParserHist(h, orc)
}

func runParserHist(h *Hist, orc *Oracle) {
	c := h.C
	if h.cfgFor != h.PC.JSON || h.cfgVal == nil {
		h.cfgVal = h.PC.Config()
		h.cfgFor = h.PC.JSON
	}
	cfg := h.cfgVal
	var p lz.Parser
	var err error
	if h.NewParserFn != nil {
		h.inLib = true // the supplied constructor drives a prior history on the real parser
		p = h.NewParserFn(cfg)
		h.inLib = false
	} else if h.inLib = true; true {
		p, err = cfg.NewParser()
		h.inLib = false
	}
	if err != nil {
		panic(fmt.Errorf("harness: NewParser(%s): %v", h.PC.JSON, err))
	}
	h.P = p
	h.Cfg = p.ParserConfig()
	h.BC = p.BufferConfig()
	h.MinMatch, h.MaxMatch = MinMatch(h.PC.Kind, h.Cfg)
	h.Stream = append(h.Stream[:0], h.Preload...)
	h.Off, h.Pos, h.Resets, h.Fills = 0, 0, 0, 0
	h.Rec = h.Rec[:0]
	h.NilUsed = false
	h.oplog = h.oplog[:0]
	h.outcome = 14695981039346656037
	for _, b := range h.Input {
		h.mix(uint64(b) + 1)
	}
	h.mix(uint64(len(h.Input)) << 32)
	h.failed = false
	h.St.Execs++

	in := h.Input
	fed := len(h.Preload) // Preload is a prefix of Input that the parser already holds
	B := h.BC.BufferSize
	// the block is reused by all Parse calls of one execution (so that stale
	// block contents are observable) but must not carry anything over from the
	// previous execution, or replay would not be deterministic
	h.Blk.Sequences = h.seqStore[:0:len(h.seqStore)] // always the same spare capacity: replay meets the same block
	h.Blk.Literals = h.litStore[:0:len(h.litStore)]
	blk := &h.Blk
	depth := int64(0)

	track := func() {
		depth++
		h.St.Transitions++
		if h.Track {
			h.scratch = lz.VerifStateBytes(h.P, h.scratch[:0])
			h.States[maphash.Bytes(stateSeed, h.scratch)] = struct{}{}
		}
	}

	reset := func(data []byte, extraCap int) bool {
		var arg []byte
		if data != nil {
			arg = make([]byte, len(data), len(data)+extraCap)
			copy(arg, data)
			for i := len(data); i < cap(arg); i++ {
				arg[:cap(arg)][i] = 0xA5 ^ byte(i) // poisoned margin
			}
		}
		h.inLib = true
		err := p.Reset(arg)
		h.inLib = false
		track()
		h.logOp(opReset, len(data), extraCap)
		h.record(opReset, len(data), err, nil)
		if err != nil {
			h.Fail("reset-error", "Reset(len %d) with BufferSize %d failed: %v", len(data), B, err)
			return false
		}
		h.Stream = append(h.Stream[:0], data...)
		h.Off, h.Pos = 0, 0
		h.NilUsed = false
		h.Resets++
		h.mix(0x5e5e)
		if orc.Op != nil {
			orc.Op(h, "reset")
		}
		return true
	}

	doParse := func(nilBlk bool, flags int) (n int, err error) {
		ev := ParseEv{Flags: flags, Nil: nilBlk, PosBefore: h.Pos, OffBefore: h.Off, Unparsed: len(h.Stream) - h.Pos, Blk: blk}
		if nilBlk {
			h.inLib, h.InNilParse = true, true
			n, err = p.Parse(nil, flags)
			h.inLib, h.InNilParse = false, false
			ev.Blk = nil
		} else {
			// the caller's block may hold anything from its earlier use (Aux is the caller's to write): poison what the
			// slices have in store, Parse must overwrite what it returns
			full := blk.Sequences[:cap(blk.Sequences)]
			for i := range full {
				full[i] = lz.Seq{LitLen: 0xA5A5A5A5, MatchLen: 0x5A5A5A5A, Offset: 0xA5A5A5A5, Aux: 0xA5A5A5A5}
			}
			lits := blk.Literals[:cap(blk.Literals)]
			for i := range lits {
				lits[i] = 0xA5
			}
			h.inLib = true
			n, err = p.Parse(blk, flags)
			h.inLib = false
		}
		track()
		ev.N, ev.Err = n, err
		if err == nil && n > 0 && n <= ev.Unparsed {
			h.Pos += n
			if nilBlk {
				h.NilUsed = true
			}
		}
		h.mix(uint64(n)<<8 ^ uint64(flags)<<1)
		if err != nil {
			h.mix(0xee)
		}
		if !nilBlk && err == nil {
			for _, s := range blk.Sequences {
				h.mix(uint64(s.LitLen)<<40 ^ uint64(s.MatchLen)<<20 ^ uint64(s.Offset))
			}
			h.mix(uint64(len(blk.Literals)))
		}
		if nilBlk {
			h.record(opParseNil, n, err, nil)
		} else {
			h.record(opParse+flags, n, err, blk)
		}
		if nilBlk {
			h.logOp(opParseNil, 0, n)
		} else if flags != 0 {
			h.logOp(opParseNTL, 0, n)
		} else {
			h.logOp(opParse, 0, n)
		}
		if orc.Parse != nil {
			orc.Parse(h, &ev)
		}
		return n, err
	}

	shrink := func() {
		h.Last.BufLen = h.W()
		h.inLib = true
		delta := p.Shrink()
		h.inLib = false
		h.Last.N, h.Last.Err = delta, nil
		track()
		h.logOp(opShrink, 0, delta)
		h.record(opShrink, delta, nil, nil)
		if delta < 0 || delta > h.W() {
			h.Fail("shrink-range", "Shrink returned %d with %d parsed bytes buffered", delta, h.W())
			delta = 0
		}
		h.Off += delta
		h.mix(uint64(delta) ^ 0x5100)
		if orc.Op != nil {
			orc.Op(h, "shrink")
		}
	}

outer:
	for round := 0; ; round++ {
		progress := false
		fed0, pos0, off0, resets0 := fed, h.Pos, h.Off, h.Resets
		// ---- feed ----
		if fed < len(in) {
			rem := in[fed:]
			var alts [16]int
			na := 0
			add := func(op int) { alts[na] = op; na++ }
			add(0) // Write(rem)
			if h.Menu.WriteChunks {
				for k := 1; k <= 3; k++ {
					if k < len(rem) {
						add(k)
					}
				}
			}
			if h.Menu.ReadFrom {
				add(4) // plain reader
				add(5) // one byte per Read
				add(6) // data together with io.EOF
			}
			if h.Menu.Reset {
				add(7) // Reset(data) cap == len
				add(8) // cap == len+7
				add(9) // cap == len+64
			}
			if h.Menu.Restart {
				add(10) // Reset(input[:1]) with 7 spare bytes: the stream starts again
				add(11) // Reset(input[:min(B,len)]) without spare capacity: the stream starts again
				add(12) // Reset(input[:1]) with 16 spare bytes: more than BufferSize+7 for small buffers, less than a 12-byte input
				if B < 1<<16 {
					add(13) // Reset with BufferSize+1 bytes: must be refused and leave the parser as it was
				}
			}
			op := alts[c.Choose(na)]
			switch {
			case op <= 3:
				q := rem
				if op > 0 {
					q = rem[:op]
				} else if h.Menu.Trickle {
					q = rem[:min(len(rem), h.BC.BlockSize+1)]
				}
				h.Last.BufLen = len(h.Stream) - h.Off
				h.inLib = true
				n, err := p.Write(q)
				h.inLib = false
				h.Last.Arg, h.Last.N, h.Last.Err = len(q), n, err
				track()
				h.logOp(opWrite, len(q), n)
				h.record(opWrite, n, err, nil)
				if n < 0 || n > len(q) {
					h.Fail("write-range", "Write(%d bytes) returned n=%d", len(q), n)
					h.St.Pruned++
					break outer
				}
				if err != nil && err != lz.ErrFullBuffer {
					h.Fail("write-error", "Write returned undocumented error %v", err)
				}
				h.Stream = append(h.Stream, q[:n]...)
				fed += n
				if n > 0 {
					progress = true
				}
				h.mix(uint64(n) ^ 0x7700)
				if orc.Op != nil {
					orc.Op(h, "write")
				}
			case op <= 6:
				r := &sliceReader{data: rem}
				if op == 5 {
					r.chunk = 1
				}
				if op == 6 {
					r.withEOF = true
				}
				h.Last.BufLen = len(h.Stream) - h.Off
				h.inLib = true
				n64, err := p.ReadFrom(r)
				h.inLib = false
				h.Last.Arg, h.Last.N, h.Last.Given, h.Last.Err = len(rem), int(n64), r.given, err
				track()
				h.logOp(opReadPlain+op-4, 0, int(n64))
				h.record(opReadPlain+op-4, int(n64), err, nil)
				if n64 < 0 || int(n64) > r.given {
					h.Fail("readfrom-range", "ReadFrom returned n=%d, reader handed out %d", n64, r.given)
					h.St.Pruned++
					break outer
				}
				if err != nil && err != lz.ErrFullBuffer && err != io.EOF {
					h.Fail("readfrom-error", "ReadFrom returned undocumented error %v", err)
				}
				// what the reader handed out beyond n64 is lost if the parser did not store it; C15 checks that n64 == given
				h.Stream = append(h.Stream, rem[:n64]...)
				fed += r.given
				if r.given > 0 {
					progress = true
				}
				h.mix(uint64(n64) ^ 0x7800)
				if orc.Op != nil {
					orc.Op(h, "readfrom")
				}
			case op == 13:
				big := make([]byte, B+1)
				h.inLib = true
				err := p.Reset(big)
				h.inLib = false
				track()
				h.logOp(opReset, len(big), -1)
				h.record(opReset, len(big), err, nil)
				if err == nil {
					h.Fail("reset-oversize-accepted", "Reset with %d bytes was accepted, BufferSize is %d", len(big), B)
					h.St.Pruned++
					break outer
				}
				h.mix(0x13)
				// the stream is unchanged: a refused Reset is not a step, go on with a plain Write
				n, err := func() (int, error) {
					h.inLib = true
					defer func() { h.inLib = false }()
					return p.Write(rem)
				}()
				track()
				h.logOp(opWrite, len(rem), n)
				h.record(opWrite, n, err, nil)
				if n < 0 || n > len(rem) {
					h.Fail("write-range", "Write(%d bytes) returned n=%d", len(rem), n)
					h.St.Pruned++
					break outer
				}
				h.Stream = append(h.Stream, rem[:n]...)
				fed += n
				if n > 0 {
					progress = true
				}
			case op >= 10:
				q := in[:1]
				extra := 7
				if op == 11 {
					q, extra = in[:min(B, len(in))], 0
				} else if op == 12 {
					extra = 16
				}
				if !reset(q, extra) {
					h.St.Pruned++
					break outer
				}
				fed = len(q)
				progress = true
			default:
				q := rem
				if len(q) > B {
					q = q[:B]
				}
				extra := 0
				if op == 8 {
					extra = 7
				} else if op == 9 {
					extra = 64
				}
				if !reset(q, extra) {
					h.St.Pruned++
					break outer
				}
				fed += len(q)
				progress = true
			}
			h.Fills++
		}
		// ---- parse ----
	parse:
		for guard := 0; ; guard++ {
			if guard > len(in)+8 {
				h.Fail("parse-loop", "more than %d Parse calls without draining the buffer", guard)
				h.St.Pruned++
				break outer
			}
			if h.Menu.Trickle && guard >= 1 && fed < len(in) && B-(len(h.Stream)-h.Off) > 0 {
				progress = true // trickle mode: one Parse per Write while input remains and the buffer has room
				break parse
			}
			unparsed := len(h.Stream) - h.Pos
			room := B - (len(h.Stream) - h.Off)
			var alts [8]int
			na := 0
			add := func(op int) { alts[na] = op; na++ }
			add(0)
			if h.Menu.NTL {
				add(1)
			}
			if h.Menu.ParseNil {
				add(2)
				if unparsed > h.BC.BlockSize {
					add(3)
				}
			}
			if h.Menu.StopEarly && fed < len(in) && unparsed > 0 && (room > 0 || h.Menu.Restart) {
				add(4) // with the capacity layers also when the buffer is full: the next Write must then return ErrFullBuffer
			}
			if h.Menu.ShrinkDev && unparsed > 0 && h.W() > h.BC.ShrinkSize {
				add(5)
			}
			op := alts[c.Choose(na)]
			var n int
			var err error
			switch op {
			case 0:
				n, err = doParse(false, 0)
			case 1:
				n, err = doParse(false, lz.NoTrailingLiterals)
			case 2:
				n, err = doParse(true, 0)
			case 3:
				// drain with Parse(nil): must take exactly ceil(unparsed/BlockSize) calls
				want := (unparsed + h.BC.BlockSize - 1) / h.BC.BlockSize
				for i := 0; i < want+1; i++ {
					n, err = doParse(true, 0)
					if err != nil {
						break
					}
				}
				if err == nil {
					// still not empty after want+1 calls: the oracle has seen it; stop here
					h.St.Pruned++
					break outer
				}
			case 4:
				progress = true // stop parsing early counts as a step; next round feeds
				break parse
			case 5:
				shrink()
				continue parse
			}
			if err == lz.ErrEmptyBuffer {
				break parse
			}
			if err != nil {
				// undocumented error: oracle has seen it
				h.St.Pruned++
				break outer
			}
			if n <= 0 || n > unparsed {
				// no progress or impossible n: the oracle has seen it; cannot continue
				h.St.Pruned++
				break outer
			}
			progress = true
		}
		if fed >= len(in) && len(h.Stream) == h.Pos {
			break
		}
		// ---- shrink ----
		{
			room := B - (len(h.Stream) - h.Off)
			var alts [4]int
			na := 0
			add := func(op int) { alts[na] = op; na++ }
			add(0)
			if h.Menu.ShrinkDev {
				if room > 0 {
					add(1) // skip
				}
				add(2) // twice
			}
			if h.Menu.Reset {
				add(3) // Reset(nil)
			}
			switch alts[c.Choose(na)] {
			case 0:
				shrink()
			case 1:
			case 2:
				shrink()
				shrink()
			case 3:
				if !reset(nil, 0) {
					h.St.Pruned++
					break outer
				}
				progress = true
			}
		}
		if fed != fed0 || h.Pos != pos0 || h.Off != off0 || h.Resets != resets0 {
			progress = true
		}
		if !progress {
			room := B - (len(h.Stream) - h.Off)
			if room <= 0 {
				// buffer full and Shrink cannot free anything (W <= ShrinkSize): legitimate end
				h.St.Add("stuck_full_buffer", 1)
				break
			}
			h.Fail("no-progress", "a complete feed/parse/shrink round made no progress (room %d)", room)
			h.St.Pruned++
			break
		}
	}
	if orc.End != nil {
		orc.End(h)
	}
	if depth > h.St.MaxDepth {
		h.St.MaxDepth = depth
	}
	if h.Track {
		h.Outcomes[h.outcome] = struct{}{}
	}
}

// CfgKey is a small hash of a configuration JSON used to make state and
// outcome keys distinct across configurations.
func CfgKey(s string) uint64 {
	f := fnv.New64a()
	f.Write([]byte(s))
	return f.Sum64()
}
