package harness

import (
	"encoding/json"
	"sort"

	"verif/mc/engine"
)

// Check is one registered property check.
type Check struct {
	ID string
	// Shards returns the fixed partition of the search space for a tier.
	Shards func(tier string) []engine.Shard
	// Replay re-executes one recorded case and reports its violations.
	Replay func(raw json.RawMessage, col *engine.Collector) error
	// Bounds describes the bounds of a tier for the evidence file.
	Bounds      func(tier string) map[string]any
	Rule        string
	Explanation string
	Assumptions []string
	// StatesNote says what a state and a transition are for this check.
	StatesNote string
	// Post lets a check add to the evidence after the run (e.g. coverage).
	Post func(tier string, res *engine.Result, cov map[string]any)
}

// Registry holds all checks by property id.
var Registry = map[string]*Check{}

func register(c *Check) { Registry[c.ID] = c }

// IDs returns the registered ids in order.
func IDs() []string {
	var ids []string
	for id := range Registry {
		ids = append(ids, id)
	}
	sort.Strings(ids)
	return ids
}
