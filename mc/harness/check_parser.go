package harness

import (
	"encoding/hex"
	"encoding/json"
	"fmt"
	"hash/fnv"

	"github.com/ulikunitz/lz"
	"verif/mc/engine"
)

// InputSet is a finite enumerated family of inputs.
type InputSet struct {
	Name string
	Each func(f func(s []byte))
}

// Alphabet sets.
func Binary(maxLen int) InputSet {
	return InputSet{fmt.Sprintf("{a,b}^0..%d", maxLen), func(f func([]byte)) { Strings([]byte("ab"), 0, maxLen, f) }}
}
func Ternary(maxLen int) InputSet {
	return InputSet{fmt.Sprintf("{a,b,c}^1..%d", maxLen), func(f func([]byte)) { Strings([]byte("abc"), 1, maxLen, f) }}
}
func ZeroA(maxLen int) InputSet {
	return InputSet{fmt.Sprintf("{0x00,a}^1..%d", maxLen), func(f func([]byte)) { Strings([]byte{0, 'a'}, 1, maxLen, f) }}
}
func BinaryRange(minLen, maxLen int) InputSet {
	return InputSet{fmt.Sprintf("{a,b}^%d..%d", minLen, maxLen), func(f func([]byte)) { Strings([]byte("ab"), minLen, maxLen, f) }}
}

// StructuredSet is the family F(n) for the listed lengths.
func StructuredSet(lengths ...int) InputSet {
	return InputSet{fmt.Sprintf("F(n), n in %v", lengths), func(f func([]byte)) {
		for _, n := range lengths {
			Structured(n, 'a', 'b', 'c', func(_ string, s []byte) { f(s) })
			Structured(n, 0, 'a', 0xff, func(_ string, s []byte) { f(s) })
		}
	}}
}

// FewLong is a five-member family of length n: a run, (ab)*, (abc)*, Fibonacci, Thue-Morse.
func FewLong(n int) InputSet {
	return InputSet{fmt.Sprintf("{a^n,(ab)^,(abc)^,fib,thue-morse} n=%d", n), func(f func([]byte)) {
		mk := func(u string) []byte {
			s := make([]byte, n)
			for i := range s {
				s[i] = u[i%len(u)]
			}
			return s
		}
		f(mk("a"))
		f(mk("ab"))
		f(mk("abc"))
		f(Fibonacci(n, 'a', 'b'))
		f(ThueMorse(n, 'a', 'b'))
	}}
}

// LargeSet is the family of LargeTexts(n).
func LargeSet(n int) InputSet {
	return InputSet{fmt.Sprintf("{deBruijn(4,8), Fibonacci, dictionary text, (abcde)^k} of %d bytes", n), func(f func([]byte)) {
		for _, t := range LargeTexts(n) {
			f(t)
		}
	}}
}

// largeGeos: default sizes, a multi-fill geometry of tens of kilobytes, and one whose window and block are 64 KiB.
var largeGeos = []lz.BufConfig{
	{},
	{BufferSize: 40000, ShrinkSize: 1000, WindowSize: 32768, BlockSize: 8192},
	{BufferSize: 70001, WindowSize: 65536, BlockSize: 65536},
}

// largeConfigs are the default search parameters on the large geometries.
func largeConfigs() []PCfg { return defaultTableConfigs(largeGeos) }

// Union concatenates input sets.
func Union(sets ...InputSet) InputSet {
	name := ""
	for i, s := range sets {
		if i > 0 {
			name += " + "
		}
		name += s.Name
	}
	return InputSet{name, func(f func([]byte)) {
		for _, s := range sets {
			s.Each(f)
		}
	}}
}

// Layer is one product configs x inputs x histories(bound) of a tier.
type Layer struct {
	Name        string
	Kinds       []string
	BufSizes    []int
	Level       int
	Inputs      InputSet
	Menu        Menu
	Bound       int
	CfgPerShard int
	NoTrack     bool
	// CfgFilter drops configurations (after defaults).
	CfgFilter func(pc PCfg) bool
	// Geos overrides the geometry grid built from BufSizes.
	Geos []lz.BufConfig
	// CfgsFn, if set, supplies the configurations (of all kinds) instead of
	// the product geometry x search parameters.
	CfgsFn func() []PCfg
}

func (l Layer) describe() map[string]any {
	m := map[string]any{"layer": l.Name, "parsers": l.Kinds, "buffer_sizes": l.BufSizes, "search_param_level": l.Level,
		"inputs": l.Inputs.Name, "deviation_bound": l.Bound, "menu": l.Menu}
	if l.Geos != nil {
		m["geometries"] = l.Geos
		delete(m, "buffer_sizes")
	}
	return m
}

// parserShards builds the shards of a parser-history check.
func parserShards(prop string, layers []Layer, mkOracle func() *Oracle) []engine.Shard {
	var shards []engine.Shard
	for _, l := range layers {
		l := l
		geo := Geometry(l.BufSizes)
		if l.Geos != nil {
			geo = l.Geos
		}
		for _, kind := range l.Kinds {
			cfgs := Configs(kind, geo, l.Level)
			if l.CfgsFn != nil {
				cfgs = nil
				for _, c := range l.CfgsFn() {
					if c.Kind == kind {
						cfgs = append(cfgs, c)
					}
				}
			}
			if l.CfgFilter != nil {
				var f []PCfg
				for _, c := range cfgs {
					if l.CfgFilter(c) {
						f = append(f, c)
					}
				}
				cfgs = f
			}
			per := l.CfgPerShard
			if per <= 0 {
				per = 16
			}
			for lo := 0; lo < len(cfgs); lo += per {
				hi := min(lo+per, len(cfgs))
				part := cfgs[lo:hi]
				shards = append(shards, engine.Shard{
					Name: fmt.Sprintf("%s/%s/%s/cfg%d-%d", prop, l.Name, kind, lo, hi),
					Run: func(st *engine.Stats, col *engine.Collector) {
						runParserShard(prop, l, part, mkOracle, st, col)
					},
				})
			}
		}
	}
	return shards
}

func runParserShard(prop string, l Layer, cfgs []PCfg, mkOracle func() *Oracle, st *engine.Stats, col *engine.Collector) {
	orc := mkOracle()
	h := &Hist{St: st, Col: col, Prop: prop, Menu: l.Menu, Track: !l.NoTrack}
	for _, pc := range cfgs {
		h.PC = pc
		h.States = map[uint64]struct{}{}
		h.Outcomes = map[uint64]struct{}{}
		nontrivial := int64(0)
		l.Inputs.Each(func(s []byte) {
			h.Input = s
			st.SetNote(fmt.Sprintf("%s %s input %q (deviation bound %d)", pc.Kind, pc.JSON, s, l.Bound))
			before := len(h.Outcomes)
			ex, pts := engine.Explore(l.Bound, func(c *engine.Chooser) {
				h.C = c
				RunParserHist(h, orc)
			})
			st.Add("execs_"+l.Name, ex)
			st.Points += pts
			if len(h.Outcomes) > before {
				nontrivial++
			}
			if len(st.Samples) < 3 && len(s) >= 3 && h.C != nil {
				st.Sample(h.Case())
			}
		})
		st.States += int64(len(h.States))
		st.Outcomes += int64(len(h.Outcomes))
		st.Nontrivial += nontrivial
		st.Add("configs", 1)
	}
}

// replayParser re-executes one recorded parser-history case.
func replayParser(prop string, raw json.RawMessage, mkOracle func() *Oracle, col *engine.Collector) error {
	var pc PCase
	if err := json.Unmarshal(raw, &pc); err != nil {
		return err
	}
	in, err := hex.DecodeString(pc.Input)
	if err != nil {
		return err
	}
	var st engine.Stats
	h := &Hist{St: &st, Col: col, Prop: prop, Menu: pc.Menu, PC: PCfg{Kind: pc.Kind, JSON: pc.Cfg}, Input: in}
	var c engine.Chooser
	c.Reset(pc.Choices)
	h.C = &c
	RunParserHist(h, mkOracle())
	if len(c.Cs) < len(pc.Choices) {
		return fmt.Errorf("replay met %d choice points, recorded %d", len(c.Cs), len(pc.Choices))
	}
	fmt.Printf("replayed %s %s input %q ops: %s\n", pc.Kind, pc.Cfg, in, h.OpsString())
	return nil
}

func inputKey(s []byte) uint64 {
	f := fnv.New64a()
	f.Write(s)
	return f.Sum64()
}

var allQuickBuf = []int{1, 2, 3, 5, 8, 16}

// parserLayers are the shared layers of the parser-history checks C01, C02,
// C03, C14 and C19 (clauses a and b).
func parserLayers(tier string, menu Menu) []Layer {
	suffixKinds := []string{"GSAP", "OSAP"}
	if tier == "thorough" {
		return []Layer{
			{Name: "hash-b0", Kinds: HashKinds, BufSizes: allQuickBuf, Level: 1, Inputs: Union(Binary(10), Ternary(6), ZeroA(8)), Menu: menu, Bound: 0, NoTrack: true},
			{Name: "hash-b1", Kinds: HashKinds, BufSizes: allQuickBuf, Level: 0, Inputs: Union(Binary(8), Ternary(5), ZeroA(6)), Menu: menu, Bound: 1},
			{Name: "hash-b2", Kinds: HashKinds, BufSizes: []int{2, 3, 5, 8}, Level: 0, Inputs: Union(Binary(7), ZeroA(5)), Menu: menu, Bound: 2, NoTrack: true},
			{Name: "hash-b3", Kinds: HashKinds, BufSizes: []int{3, 5}, Level: 2, Inputs: Binary(5), Menu: menu, Bound: 3, NoTrack: true},
			{Name: "hash-long", Kinds: HashKinds, BufSizes: []int{16, 40, 100}, Level: 0, Inputs: StructuredSet(17, 33, 40, 70, 130, 200), Menu: menu, Bound: 1},
			{Name: "sa-b0", Kinds: suffixKinds, BufSizes: allQuickBuf, Level: 1, Inputs: Union(Binary(7), Ternary(4), ZeroA(5)), Menu: menu, Bound: 0},
			{Name: "sa-b1", Kinds: suffixKinds, BufSizes: []int{2, 3, 5, 8}, Level: 0, Inputs: Union(Binary(6), ZeroA(4)), Menu: menu, Bound: 1},
			{Name: "sa-b2", Kinds: suffixKinds, BufSizes: []int{3}, Level: 0, Inputs: Binary(4), Menu: menu, Bound: 2},
			{Name: "sa-long", Kinds: suffixKinds, BufSizes: []int{16, 100}, Level: 0, Inputs: StructuredSet(17, 40, 130), Menu: menu, Bound: 0},
			{Name: "sa-multiblock", Kinds: suffixKinds, Geos: multiBlockGeos, Level: 0, Inputs: Union(Binary(8), Ternary(5)), Menu: menu.and(Menu{NTL: true, ParseNil: true, StopEarly: true, ShrinkDev: true}), Bound: 2, CfgPerShard: 1},
			{Name: "large", Kinds: Kinds, CfgsFn: largeConfigs, Inputs: Union(LargeSet(140000), LargeSet(200003)), Menu: menu, Bound: 1, CfgPerShard: 1, NoTrack: true},
			{Name: "hash-trickle", Kinds: HashKinds, BufSizes: []int{5, 8}, Level: 2, Inputs: Union(Binary(8), ZeroA(5)), Menu: trickle(menu), Bound: 2, NoTrack: true},
			{Name: "sa-trickle", Kinds: suffixKinds, Geos: multiBlockGeos, Level: 0, Inputs: Union(Binary(8), Ternary(5)), Menu: trickle(menu), Bound: 2, CfgPerShard: 1},
		}
	}
	return []Layer{
		{Name: "large", Kinds: HashKinds, CfgsFn: largeConfigs, Inputs: LargeSet(140000), Menu: menu.and(Menu{ReadFrom: true, NTL: true, ParseNil: true}), Bound: 1, CfgPerShard: 1, NoTrack: true},
		{Name: "large-sa", Kinds: []string{"GSAP", "OSAP"}, CfgsFn: largeConfigs, Inputs: LargeSet(70000), Menu: menu.and(Menu{ReadFrom: true, NTL: true, ParseNil: true}), Bound: 0, CfgPerShard: 1, NoTrack: true},
		{Name: "hash-b0", Kinds: HashKinds, BufSizes: allQuickBuf, Level: 0, Inputs: Union(Binary(8), Ternary(5), ZeroA(6)), Menu: menu, Bound: 0},
		{Name: "hash-b1", Kinds: HashKinds, BufSizes: []int{2, 3, 5, 8}, Level: 0, Inputs: Union(Binary(5), ZeroA(4)), Menu: menu, Bound: 1},
		{Name: "hash-b2", Kinds: HashKinds, BufSizes: []int{3}, Level: 0, Inputs: Binary(4), Menu: menu, Bound: 2, NoTrack: true},
		{Name: "hash-long", Kinds: HashKinds, BufSizes: []int{16, 40}, Level: 0, Inputs: StructuredSet(17, 40), Menu: menu, Bound: 0},
		{Name: "sa-b0", Kinds: suffixKinds, BufSizes: []int{1, 2, 3, 5, 8}, Level: 0, Inputs: Union(Binary(5), ZeroA(3)), Menu: menu, Bound: 0},
		{Name: "sa-b1", Kinds: suffixKinds, BufSizes: []int{3, 5}, Level: 0, Inputs: Binary(4), Menu: menu, Bound: 1},
		{Name: "sa-multiblock", Kinds: suffixKinds, Geos: multiBlockGeos, Level: 0, Inputs: Binary(8), Menu: menu.and(Menu{NTL: true, ParseNil: true, StopEarly: true, ShrinkDev: true}), Bound: 1, CfgPerShard: 1},
		// the other default history: data is appended while unparsed data is pending
		{Name: "hash-trickle", Kinds: HashKinds, BufSizes: []int{8}, Level: 2, Inputs: BinaryRange(4, 6), Menu: trickle(menu), Bound: 1, NoTrack: true},
		{Name: "sa-trickle", Kinds: suffixKinds, Geos: multiBlockGeos, Level: 0, Inputs: Binary(7), Menu: trickle(menu), Bound: 1, CfgPerShard: 1},
	}
}

// multiBlockGeos are geometries in which one buffer fill (one suffix sort, one
// edge computation) serves several blocks of a short input: what the suffix
// array parsers keep between two Parse calls only matters there.
var multiBlockGeos = []lz.BufConfig{
	{BufferSize: 16, WindowSize: 16, BlockSize: 4},
	{BufferSize: 16, WindowSize: 16, BlockSize: 5},
	{BufferSize: 16, WindowSize: 16, BlockSize: 2},
	{BufferSize: 8, ShrinkSize: 2, WindowSize: 8, BlockSize: 3},
	// window smaller than what Shrink keeps: after the first Shrink the window starts inside the buffer
	{BufferSize: 6, ShrinkSize: 4, WindowSize: 2, BlockSize: 2},
}

// trickle switches to the trickle default history and keeps the Parse and Shrink deviations of m.
func trickle(m Menu) Menu {
	return Menu{Trickle: true, NTL: m.NTL, ParseNil: m.ParseNil, ShrinkDev: m.ShrinkDev, WriteChunks: m.WriteChunks}
}

func (m Menu) and(o Menu) Menu {
	return Menu{WriteChunks: m.WriteChunks && o.WriteChunks, ReadFrom: m.ReadFrom && o.ReadFrom, NTL: m.NTL && o.NTL, ParseNil: m.ParseNil && o.ParseNil, StopEarly: m.StopEarly && o.StopEarly,
		ShrinkDev: m.ShrinkDev && o.ShrinkDev, Reset: m.Reset && o.Reset, Restart: m.Restart && o.Restart}
}

func layerBounds(layers []Layer) map[string]any {
	var ls []any
	for _, l := range layers {
		ls = append(ls, l.describe())
	}
	return map[string]any{"layers": ls,
		"note": "each layer is the full product (accepted configurations of the geometry grid x search parameters) x inputs x all histories with at most deviation_bound departures from the default history; executions always run to completion"}
}

func registerParserCheck(id string, menu Menu, mkOracle func() *Oracle, rule, expl string) {
	register(&Check{
		ID:     id,
		Shards: func(tier string) []engine.Shard { return parserShards(id, parserLayers(tier, menu), mkOracle) },
		Replay: func(raw json.RawMessage, col *engine.Collector) error {
			return replayParser(id, raw, mkOracle, col)
		},
		Bounds:      func(tier string) map[string]any { return layerBounds(parserLayers(tier, menu)) },
		Rule:        rule,
		Explanation: expl,
		StatesNote:  "state = distinct (configuration, buffer contents, W, Off, search structure) after an API call, hashed through the verif hook VerifStateKey; transition = one API call (Write/ReadFrom/Parse/Shrink/Reset) executed on the real parser; every explored trace is an implementation trace",
		Assumptions: []string{
			"inputs are limited to the stated alphabets/lengths and the structured family; byte values other than those listed are not explored",
			"sizes near 2^32 are not filled with data",
			"Go runtime, compiler and the reference expander are trusted",
		},
	})
}

const ruleParser = "cases are (configuration, input, choice sequence) triples enumerated exhaustively per layer; a case is counted as distinct+nontrivial once per (configuration, input) whose exploration produced an observation trace (sequence of n, err and emitted blocks) not seen before for that configuration"

func init() {
	registerParserCheck("C01", FullMenu, OracleC01, ruleParser, "blocks expand to the bytes fed")
	registerParserCheck("C02", FullMenu, OracleC02, ruleParser, "sequences well-formed and inside the window")
	registerParserCheck("C03", FullMenu, OracleC03, ruleParser, "Parse accounting and progress")
	registerParserCheck("C14", FullMenu, OracleC14, ruleParser, "Parse(nil) consumes input like a normal Parse")
	registerParserCheck("C19", FullMenu, OracleC19, ruleParser, "matches are maximal (clauses a and b) and byte runs are compressed (run clause, own layers: run inputs, BlockSize 32/33/40, WindowSize 1/2/3/B, tiny and default-sized tables)")
	c19 := Registry["C19"]
	maxShards, maxBounds := c19.Shards, c19.Bounds
	c19.Shards = func(tier string) []engine.Shard {
		return append(maxShards(tier), parserShards("C19", runLayers(tier), OracleC19Run)...)
	}
	c19.Bounds = func(tier string) map[string]any {
		m := maxBounds(tier)
		m["run_clause_layers"] = layerBounds(runLayers(tier))["layers"]
		return m
	}
	c19.Replay = func(raw json.RawMessage, col *engine.Collector) error {
		// a recorded case is replayed under both oracles; only the one that reported it can fire again
		if err := replayParser("C19", raw, OracleC19, col); err != nil {
			return err
		}
		return replayParser("C19", raw, OracleC19Run, col)
	}
}
