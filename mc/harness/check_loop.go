package harness

import (
	"bytes"
	"encoding/json"
	"fmt"
	"os"
	"os/exec"
	"strings"
	"syscall"
	"time"

	"github.com/ulikunitz/lz"
	"github.com/ulikunitz/lz/suffix"
	"verif/mc/engine"
)

// ---- C13 concurrency clause at loop granularity ----
//
// The library has no synchronisation operation that could be hooked, so the
// scheduling points are generated: cmd/yieldgen rewrites the current tree of
// package lz (go build -overlay) and inserts a yield call at the top of every
// function and every loop body. Threads own distinct instances; every
// interleaving with at most N preemptions is executed and each thread's
// observations must equal those of the same script run alone.

// LoopScenario describes the threads of one scenario.
type LoopScenario struct {
	Name    string
	Threads []LoopThread
}

// LoopThread is one thread: a parser of the configuration driven over the
// input with the default Write/Parse/Shrink loop, or (Decoder) a decoder fed
// with the blocks a solo parser run produced.
type LoopThread struct {
	Kind    string
	Cfg     string
	Input   string
	Decoder bool
}

// runLoopThread executes the script of one thread and records what it observes.
func runLoopThread(t LoopThread, blocks []lz.Block) (rec []RecEv) {
	if t.Decoder {
		var out bytes.Buffer
		d, err := lz.NewDecoder(&out, lz.DecoderConfig{WindowSize: 4, BufferSize: 6})
		if err != nil {
			panic(fmt.Errorf("harness: %v", err))
		}
		for _, b := range blocks {
			n, k, l, err := d.WriteBlock(b)
			e := RecEv{Op: 100, N: n<<16 | k<<8 | l}
			if err != nil {
				e.Err = err.Error()
			}
			rec = append(rec, e)
		}
		d.Flush()
		rec = append(rec, RecEv{Op: 101, Lits: append([]byte(nil), out.Bytes()...)})
		return rec
	}
	cfg := PCfg{Kind: t.Kind, JSON: t.Cfg}.Config()
	p, err := cfg.NewParser()
	if err != nil {
		panic(fmt.Errorf("harness: %v", err))
	}
	in := []byte(t.Input)
	var blk lz.Block
	for guard := 0; guard < 4*len(in)+8; guard++ {
		n, _ := p.Write(in)
		in = in[n:]
		rec = append(rec, RecEv{Op: opWrite, N: n})
		for {
			n, err := p.Parse(&blk, 0)
			e := RecEv{Op: opParse, N: n, Seqs: append([]lz.Seq(nil), blk.Sequences...), Lits: append([]byte(nil), blk.Literals...)}
			if err != nil {
				e.Err = err.Error()
			}
			rec = append(rec, e)
			if err != nil {
				break
			}
		}
		if len(in) == 0 {
			break
		}
		rec = append(rec, RecEv{Op: opShrink, N: p.Shrink()})
	}
	// Reset(nil), a short second stream, Reset(data), a third one: Reset must not touch other instances either
	p.Reset(nil)
	nw, _ := p.Write([]byte(t.Input[:min(len(t.Input), 4)]))
	rec = append(rec, RecEv{Op: opWrite, N: nw})
	n, err := p.Parse(&blk, 0)
	e := RecEv{Op: opParse, N: n, Seqs: append([]lz.Seq(nil), blk.Sequences...), Lits: append([]byte(nil), blk.Literals...)}
	if err != nil {
		e.Err = err.Error()
	}
	rec = append(rec, e)
	p.Reset([]byte(t.Input[:min(len(t.Input), 3)]))
	n, err = p.Parse(&blk, 0)
	e = RecEv{Op: opParse, N: n, Seqs: append([]lz.Seq(nil), blk.Sequences...), Lits: append([]byte(nil), blk.Literals...)}
	if err != nil {
		e.Err = err.Error()
	}
	return append(rec, e)
}

func loopCfg(kind string) string {
	return loopCfgGeo(kind, lz.BufConfig{BufferSize: 6, ShrinkSize: 2, WindowSize: 6, BlockSize: 3})
}

func loopCfgGeo(kind string, bc lz.BufConfig) string {
	sp := map[string]map[string]int{
		"HP": {"InputLen": 2, "HashBits": 2}, "BHP": {"InputLen": 2, "HashBits": 2},
		"DHP": {"InputLen1": 2, "HashBits1": 2, "InputLen2": 3, "HashBits2": 2}, "BDHP": {"InputLen1": 2, "HashBits1": 2, "InputLen2": 3, "HashBits2": 2},
		"BUP": {"InputLen": 2, "HashBits": 1, "BucketSize": 2}, "GSAP": {"MinMatchLen": 2}, "OSAP": {"MinMatchLen": 2, "MaxMatchLen": 5},
	}[kind]
	pc, ok := mkCfg(kind, Build(kind, bc, sp))
	if !ok {
		panic("harness: loop configuration rejected for " + kind)
	}
	return pc.JSON
}

// LoopScenarios lists the scenarios of a tier.
func LoopScenarios(tier string) []LoopScenario {
	inA, inB := "abababbabab", "bbabbabbaab"
	var out []LoopScenario
	th := func(kind, in string) LoopThread { return LoopThread{Kind: kind, Cfg: loopCfg(kind), Input: in} }
	for _, k := range Kinds {
		out = append(out, LoopScenario{Name: k + "+" + k, Threads: []LoopThread{th(k, inA), th(k, inB)}})
	}
	// a second geometry in which half a buffer of history (and its search structure entries) survives every Shrink
	mid := lz.BufConfig{BufferSize: 12, ShrinkSize: 6, WindowSize: 12, BlockSize: 4}
	inC, inD := "abbabababbababbabaababba", "babbabaabbabababbabbabab"
	for _, k := range Kinds {
		out = append(out, LoopScenario{Name: k + "+" + k + "/mid", Threads: []LoopThread{{Kind: k, Cfg: loopCfgGeo(k, mid), Input: inC}, {Kind: k, Cfg: loopCfgGeo(k, mid), Input: inD}}})
	}
	for _, p := range [][2]string{{"HP", "BHP"}, {"DHP", "BDHP"}, {"HP", "BUP"}, {"GSAP", "OSAP"}, {"BHP", "BDHP"}} {
		out = append(out, LoopScenario{Name: p[0] + "+" + p[1], Threads: []LoopThread{th(p[0], inA), th(p[1], inB)}})
	}
	for _, k := range []string{"HP", "BUP", "OSAP"} {
		out = append(out, LoopScenario{Name: k + "+Decoder", Threads: []LoopThread{th(k, inA), {Decoder: true, Kind: "HP", Cfg: loopCfg("HP"), Input: inB}}})
	}
	if tier == "thorough" {
		for _, k := range []string{"HP", "BUP", "DHP"} {
			out = append(out, LoopScenario{Name: k + "x3", Threads: []LoopThread{th(k, inA[:7]), th(k, inB[:7]), th(k, "aabbaab")}})
		}
	}
	return out
}

// loopBound is the preemption bound of a scenario: executions with suffix
// array parsers cost milliseconds (a sort per buffer fill), the others
// microseconds.
func loopBound(tier string, sc LoopScenario) int {
	b := 2
	for _, t := range sc.Threads {
		if !t.Decoder && (t.Kind == "GSAP" || t.Kind == "OSAP") {
			b = 1
		}
	}
	if tier == "thorough" && !strings.HasSuffix(sc.Name, "/mid") && len(sc.Threads) < 3 {
		b++ // the mid-geometry and the three-thread scenarios have too many schedules for one more preemption
	}
	return b
}

// LoopCase is the replayable description of a loop-level violation.
type LoopCase struct {
	Scenario string `json:"loop_scenario"`
	Tier     string `json:"tier"`
	Choices  []int  `json:"choices"`
	Bound    int    `json:"preemption_bound"`
}

// runLoopScenario explores one scenario in THIS process (which must be the
// yield-instrumented build).
func runLoopScenario(sc LoopScenario, tier string, bound int, only []int, st *engine.Stats, col *engine.Collector) {
	// solo traces (no scheduler installed)
	lz.VerifYield, suffix.VerifYield = nil, nil
	decBlocks := map[int][]lz.Block{}
	solo := make([][]RecEv, len(sc.Threads))
	for i, t := range sc.Threads {
		if t.Decoder {
			blocks, err := parseAll(PCfg{Kind: t.Kind, JSON: t.Cfg}.Config(), []byte(t.Input))
			if err != nil {
				panic(fmt.Errorf("harness: %v", err))
			}
			decBlocks[i] = blocks
		}
		solo[i] = runLoopThread(t, decBlocks[i])
	}
	got := make([][]RecEv, len(sc.Threads))
	schedules := map[uint64]struct{}{}
	run := func(c *engine.Chooser) {
		bodies := make([]func(), len(sc.Threads))
		for i := range sc.Threads {
			i := i
			bodies[i] = func() { got[i] = runLoopThread(sc.Threads[i], decBlocks[i]) }
		}
		var panicked any
		func() {
			defer func() { panicked = recover() }()
			s := engine.RunInline(c, bodies, func(y func()) { lz.VerifYield, suffix.VerifYield = y, y })
			st.Transitions += s.Yields
			st.Add("context_switches", s.Switch)
			st.Max("max_yield_points_per_execution", s.Yields)
		}()
		lz.VerifYield, suffix.VerifYield = nil, nil
		st.Execs++
		h := uint64(14695981039346656037)
		for _, x := range c.Cs {
			h = (h ^ uint64(x+1)) * 1099511628211
		}
		schedules[h] = struct{}{}
		report := func(sig, msg string) {
			full := "C13|concurrent-loop|" + sc.Name + "|" + sig
			var cs any
			if !col.Seen(full) {
				cs = LoopCase{Scenario: sc.Name, Tier: tier, Choices: c.Choices(), Bound: bound}
			}
			col.Report(engine.Violation{Property: "C13", Sig: full, Msg: msg, Case: cs, Rank: int64(c.Deviations())<<32 + int64(len(c.Cs))})
		}
		if panicked != nil {
			if _, ok := panicked.(engine.ReplayDivergence); ok {
				panic(panicked)
			}
			report("panic", fmt.Sprintf("scenario %s: a thread panicked under an interleaving with %d preemptions: %v", sc.Name, c.Deviations(), panicked))
			return
		}
		for i := range sc.Threads {
			if j, ok := recEqual(got[i], solo[i]); !ok {
				report("trace-differs", fmt.Sprintf("scenario %s: thread %d (%s on %q) observes %s under an interleaving with %d preemptions, alone it observes %s (event %d): the instances are not independent",
					sc.Name, i, sc.Threads[i].Kind, sc.Threads[i].Input, fmtRec(got[i], j), c.Deviations(), fmtRec(solo[i], j), j))
				return
			}
		}
	}
	if only != nil {
		var c engine.Chooser
		c.Reset(only)
		run(&c)
		return
	}
	ex, pts := engine.Explore(bound, run)
	st.Points += pts
	st.Add("loop_level_schedules", ex)
	st.States += int64(len(schedules))
	st.Outcomes += int64(len(schedules))
	st.Nontrivial += int64(len(schedules))
	st.Add("loop_level_scenarios", 1)
	st.Sample(map[string]any{"loop_level_scenario": sc.Name, "threads": sc.Threads, "preemption_bound": bound, "schedules": ex})
}

// workerResult is what `lzmc worker` prints.
type WorkerResult struct {
	Stats      engine.Stats       `json:"stats"`
	Violations []engine.Violation `json:"violations"`
	Counts     map[string]int64   `json:"counts"`
}

// delegateToChild runs the named shard in a fresh process of this binary (or
// of bin, if given) and merges its result. Scenarios that look for state shared
// between instances must not share a process with the other shards of the
// worker pool: whatever those leave behind in package-level state would make an
// execution irreproducible. It returns false in the child itself.
func delegateToChild(id, shard, tier string, st *engine.Stats, col *engine.Collector) bool {
	if os.Getenv("LZMC_CHILD") != "" {
		return false
	}
	exe, err := os.Executable()
	if err != nil {
		return false
	}
	runChild(exe, id, shard, tier, st, col)
	return true
}

func runChild(bin, id, shard, tier string, st *engine.Stats, col *engine.Collector) {
	// the exploration happens in the child: keep the stall monitor of this process quiet meanwhile
	stop := make(chan struct{})
	go func() {
		t := time.NewTicker(10 * time.Second)
		defer t.Stop()
		for {
			select {
			case <-stop:
				return
			case <-t.C:
				engine.Progress.Add(1)
			}
		}
	}()
	cmd := exec.Command(bin, "worker", id, shard, "--tier", tier)
	cmd.Env = append(os.Environ(), "LZMC_CHILD=1")
	cmd.SysProcAttr = &syscall.SysProcAttr{Pdeathsig: syscall.SIGKILL} // never outlive the checker process
	out, err := cmd.Output()
	close(stop)
	if err != nil {
		engine.Fatalf("worker process for %s failed: %v\n%s", shard, err, out)
	}
	var wr WorkerResult
	if err := json.Unmarshal(out, &wr); err != nil {
		engine.Fatalf("worker process for %s: bad output: %v", shard, err)
	}
	st.Merge(&wr.Stats)
	for _, v := range wr.Violations {
		n := wr.Counts[v.Sig]
		col.Report(v)
		for i := int64(1); i < n; i++ {
			col.Report(engine.Violation{Property: v.Property, Sig: v.Sig, Rank: 1 << 62})
		}
	}
}

// loopShards returns one shard per scenario. In the plain build the shard
// delegates to the yield-instrumented binary (environment LZMC_YIELD_BIN).
func loopShards(tier string) []engine.Shard {
	var shards []engine.Shard
	for _, sc := range LoopScenarios(tier) {
		sc := sc
		name := "C13/loop/" + sc.Name
		shards = append(shards, engine.Shard{Name: name, Run: func(st *engine.Stats, col *engine.Collector) {
			if lz.VerifInstrumented {
				runLoopScenario(sc, tier, loopBound(tier, sc), nil, st, col)
				return
			}
			bin := os.Getenv("LZMC_YIELD_BIN")
			if bin == "" {
				st.CapsHit = append(st.CapsHit, "loop-level interleavings skipped: no yield-instrumented build available (LZMC_YIELD_BIN unset)")
				return
			}
			runChild(bin, "C13", name, tier, st, col)
		}})
	}
	return shards
}

// replayLoop re-executes one recorded schedule (through the instrumented binary if necessary).
func replayLoop(raw json.RawMessage, col *engine.Collector) error {
	var lc LoopCase
	if err := json.Unmarshal(raw, &lc); err != nil {
		return err
	}
	if !lz.VerifInstrumented {
		bin := os.Getenv("LZMC_YIELD_BIN")
		if bin == "" {
			return fmt.Errorf("replay of a loop-level schedule needs the yield-instrumented build (LZMC_YIELD_BIN)")
		}
		out, err := exec.Command(bin, "worker-replay", "C13", string(raw)).Output()
		if err != nil {
			return fmt.Errorf("loop-level replay worker failed: %v\n%s", err, out)
		}
		var wr WorkerResult
		if err := json.Unmarshal(out, &wr); err != nil {
			return err
		}
		for _, v := range wr.Violations {
			col.Report(v)
		}
		return nil
	}
	for _, sc := range LoopScenarios(lc.Tier) {
		if sc.Name == lc.Scenario {
			var st engine.Stats
			runLoopScenario(sc, lc.Tier, lc.Bound, lc.Choices, &st, col)
			return nil
		}
	}
	return fmt.Errorf("unknown loop scenario %q", lc.Scenario)
}
