package ref

import (
	"bytes"
	"fmt"
	"sort"
)

// SuffixArray computes the suffix array by sorting with bytes.Compare.
func SuffixArray(t []byte) []int32 {
	sa := make([]int32, len(t))
	for i := range sa {
		sa[i] = int32(i)
	}
	sort.Slice(sa, func(i, j int) bool { return bytes.Compare(t[sa[i]:], t[sa[j]:]) < 0 })
	return sa
}

// CheckSA verifies in linear time (plus rank lookups) that sa is the suffix
// array of t: it is a permutation, first bytes are non-decreasing, and for
// equal first bytes the ranks of the suffixes one position later increase.
func CheckSA(t []byte, sa []int32) error {
	n := len(t)
	if len(sa) != n {
		return fmt.Errorf("len(sa)=%d len(t)=%d", len(sa), n)
	}
	rank := make([]int32, n+1)
	seen := make([]bool, n)
	for r, p := range sa {
		if p < 0 || int(p) >= n || seen[p] {
			return fmt.Errorf("sa is not a permutation: sa[%d]=%d", r, p)
		}
		seen[p] = true
		rank[p] = int32(r)
	}
	rank[n] = -1 // the empty suffix sorts first
	for r := 1; r < n; r++ {
		a, b := sa[r-1], sa[r]
		if t[a] > t[b] {
			return fmt.Errorf("suffixes at sa[%d]=%d and sa[%d]=%d out of order (first byte)", r-1, a, r, b)
		}
		if t[a] == t[b] && rank[a+1] >= rank[b+1] {
			return fmt.Errorf("suffixes at sa[%d]=%d and sa[%d]=%d out of order", r-1, a, r, b)
		}
	}
	return nil
}

// CommonPrefix returns the length of the longest common prefix of t[i:] and t[j:].
func CommonPrefix(t []byte, i, j int) int {
	n := 0
	for i+n < len(t) && j+n < len(t) && t[i+n] == t[j+n] {
		n++
	}
	return n
}

// LCPNaive computes the LCP table of sa by direct comparison.
func LCPNaive(t []byte, sa []int32) []int32 {
	lcp := make([]int32, len(sa))
	for i := 1; i < len(sa); i++ {
		lcp[i] = int32(CommonPrefix(t, int(sa[i-1]), int(sa[i])))
	}
	return lcp
}
