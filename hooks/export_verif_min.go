//go:build verif

package lz

import (
	"encoding/binary"
	"hash/fnv"
	"reflect"
)

// Degraded replacement of export_verif.go, used by /verif/bin/check (go build
// -overlay) only when the regular hook file does not compile against the tree
// under test (e.g. an internal field it reads was renamed or moved). It offers
// the same API but reads no unexported field: the state dump is reduced to the
// exported ParserBuffer and the bitset wrapper only uses the bitset's methods.

type VerifBitset struct{ b bitset }

func (v *VerifBitset) Insert(i ...int)                { v.b.insert(i...) }
func (v *VerifBitset) Clear()                         { v.b.clear() }
func (v *VerifBitset) MemberBefore(i int) (int, bool) { return v.b.memberBefore(i) }
func (v *VerifBitset) MemberAfter(i int) (int, bool)  { return v.b.memberAfter(i) }
func (v *VerifBitset) Slice() []int                   { return v.b.slice() }
func (v *VerifBitset) Shape() (off, n, c int)         { return 0, len(v.b.slice()), 0 }
func (v *VerifBitset) Words() []uint64                { return nil }

// Clone rebuilds the set from its members (the reused capacity of the
// original is not reproduced in the degraded mode).
func (v *VerifBitset) Clone() *VerifBitset {
	c := &VerifBitset{}
	c.b.insert(v.b.slice()...)
	return c
}

func VerifLCP(p, q []byte) int     { return lcp(p, q) }
func VerifLCS(p, q []byte) int     { return lcs(p, q) }
func VerifGetLE64(p []byte) uint64 { return getLE64(p) }

func (d *Decoder) VerifBuffer() *DecoderBuffer {
	v := reflect.ValueOf(d).Elem()
	for i := 0; i < v.NumField(); i++ {
		if v.Field(i).Type() == reflect.TypeOf(DecoderBuffer{}) {
			return (*DecoderBuffer)(v.Field(i).Addr().UnsafePointer())
		}
	}
	panic("harness: Decoder has no DecoderBuffer field")
}

func VerifParserBuffer(p Parser) *ParserBuffer {
	v := reflect.ValueOf(p)
	if v.Kind() != reflect.Pointer || v.Elem().Kind() != reflect.Struct {
		return nil
	}
	f := v.Elem().FieldByName("ParserBuffer")
	if !f.IsValid() || !f.CanAddr() {
		return nil
	}
	pb, _ := f.Addr().Interface().(*ParserBuffer)
	return pb
}

func VerifStateBytes(p Parser, w []byte) []byte {
	if pb := VerifParserBuffer(p); pb != nil {
		w = binary.LittleEndian.AppendUint64(w, uint64(pb.W))
		w = binary.LittleEndian.AppendUint64(w, uint64(pb.Off))
		w = append(w, pb.Data...)
		w = append(w, 0xff)
	}
	return w
}

func VerifStateKey(p Parser) uint64 {
	h := fnv.New64a()
	h.Write(VerifStateBytes(p, nil))
	return h.Sum64()
}

var VerifYield func()

var VerifInstrumented bool
