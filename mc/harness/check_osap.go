package harness

import (
	"bytes"
	"encoding/json"
	"fmt"

	"github.com/ulikunitz/lz"
	"verif/mc/engine"
	"verif/mc/ref"
)

// OracleC11: every block OSAP emits with flags 0 has minimum cost.
func OracleC11() *Oracle {
	return &Oracle{
		Parse: func(h *Hist, ev *ParseEv) {
			if ev.Nil || ev.Err != nil || ev.Flags != 0 {
				return
			}
			if ev.N < 1 || ev.N > ev.Unparsed {
				return
			}
			buf := h.Stream[ev.OffBefore:]
			w := ev.PosBefore - ev.OffBefore
			// the emitted parse must itself be valid (C01/C02 decide that); compute its cost
			var got uint64
			pos := w
			lits := 0
			for _, s := range ev.Blk.Sequences {
				lits += int(s.LitLen)
				pos += int(s.LitLen)
				o, m := int(s.Offset), int(s.MatchLen)
				if o < 1 || o > pos || o > h.BC.WindowSize || m < h.MinMatch || m > h.MaxMatch || pos+m > w+ev.N {
					return
				}
				for i := 0; i < m; i++ {
					if buf[pos+i] != buf[pos+i-o] {
						return
					}
				}
				got += lz.XZCost(s.MatchLen, s.Offset)
				pos += m
			}
			got += 9 * uint64(len(ev.Blk.Literals))
			if pos+len(ev.Blk.Literals)-lits != w+ev.N {
				return
			}
			opt := ref.OptimalCost(buf, w, ev.N, h.MinMatch, h.MaxMatch, h.BC.WindowSize, ref.XZCost)
			if got > opt {
				h.Fail("not-optimal", "block at buffer position %d (n=%d, buffer %q, window %d, match lengths %d..%d) costs %d bits, an alternative parse costs %d; block %+v", w, ev.N, buf, h.BC.WindowSize, h.MinMatch, h.MaxMatch, got, opt, *ev.Blk)
			} else if got < opt {
				panic(fmt.Sprintf("oracle bug: emitted parse costs %d < reference optimum %d for buffer %q w=%d n=%d", got, opt, buf, w, ev.N))
			}
		},
	}
}

func osapLayers(tier string) []Layer {
	// NoTrailingLiterals blocks are not judged (the property speaks about flags 0), but the flags-0 block that
	// re-parses the literals an earlier NoTrailingLiterals call gave back must be optimal again
	m := Menu{WriteChunks: true, ReadFrom: false, NTL: true, ParseNil: false, StopEarly: true, ShrinkDev: true, Reset: true}
	k := []string{"OSAP"}
	if tier == "thorough" {
		return []Layer{
			{Name: "osap-b0", Kinds: k, BufSizes: allQuickBuf, Level: 1, Inputs: Union(Binary(10), Ternary(7), ZeroA(7)), Menu: m, Bound: 0},
			{Name: "osap-b1", Kinds: k, BufSizes: []int{2, 3, 5, 8}, Level: 1, Inputs: Union(Binary(8), Ternary(5)), Menu: m, Bound: 1},
			{Name: "osap-b2", Kinds: k, BufSizes: []int{3, 5, 8}, Level: 0, Inputs: Binary(6), Menu: m, Bound: 2},
			{Name: "osap-long", Kinds: k, BufSizes: []int{16, 40, 100}, Level: 1, Inputs: StructuredSet(17, 33, 40, 70, 130, 200), Menu: m, Bound: 0},
			{Name: "osap-wide", Kinds: k, BufSizes: []int{16}, Level: 1, Inputs: Union(BinaryRange(11, 13), Ternary(8)), Menu: m, Bound: 0, CfgFilter: wideOnly},
		}
	}
	return []Layer{
		{Name: "osap-b0", Kinds: k, BufSizes: allQuickBuf, Level: 1, Inputs: Union(Binary(7), Ternary(4), ZeroA(4)), Menu: m, Bound: 0},
		{Name: "osap-b1", Kinds: k, BufSizes: []int{3, 5, 8}, Level: 0, Inputs: Binary(5), Menu: m, Bound: 1},
		{Name: "osap-long", Kinds: k, BufSizes: []int{16, 40}, Level: 0, Inputs: StructuredSet(17, 40, 70), Menu: m, Bound: 0, CfgFilter: wideOnly},
		{Name: "osap-wide", Kinds: k, BufSizes: []int{16}, Level: 0, Inputs: Union(BinaryRange(8, 11), Ternary(7)), Menu: m, Bound: 0, CfgFilter: wideOnly},
	}
}

// NestedPrefixes is the family of texts P_k s_k P_(k-1) s_(k-1) ... P_1 s_1 T: P_j are
// prefixes of one base word, longest first, separated by distinct letters, and T
// is the first t letters of the base word. The last position then has k match
// candidates of decreasing length at decreasing distance (one edge per level of
// the LCP-interval tree), and which of them is cheapest depends on t.
func NestedPrefixes() InputSet {
	return InputSet{"nested prefixes: k in {4,5,6,7} levels, shortest prefix 2..4 letters, final copy of 2..k+4 letters", func(f func([]byte)) {
		base := []byte("abcdefghijklmnop")
		seps := []byte("QRSTUVWXYZ")
		for k := 4; k <= 7; k++ {
			for c := 2; c <= 4; c++ {
				var head []byte
				for j := k; j >= 1; j-- {
					head = append(head, base[:c+j-1]...)
					head = append(head, seps[j])
				}
				for t := 2; t <= c+k; t++ {
					f(append(append([]byte(nil), head...), base[:t]...))
				}
			}
		}
	}}
}

func osapCfgs(geos []lz.BufConfig, pairs [][2]int) func() []PCfg {
	return func() []PCfg {
		var out []PCfg
		for _, bc := range geos {
			for _, p := range pairs {
				if pc, ok := mkCfg("OSAP", Build("OSAP", bc, map[string]int{"MinMatchLen": p[0], "MaxMatchLen": p[1]})); ok {
					out = append(out, pc)
				}
			}
		}
		return out
	}
}

// osapExtraLayers: many edges per position (nested prefixes), and matches longer than the default MaxMatchLen.
func osapExtraLayers(tier string) []Layer {
	m := Menu{WriteChunks: true, StopEarly: true}
	wide := []lz.BufConfig{{BufferSize: 128, WindowSize: 128, BlockSize: 128}, {BufferSize: 128, WindowSize: 128, BlockSize: 16}}
	long := []lz.BufConfig{{BufferSize: 1024, WindowSize: 1024, BlockSize: 1024}}
	longIn := InputSet{"x?a^600, (ab)^300, x(abc)^200", func(f func([]byte)) {
		f(bytes.Repeat([]byte("a"), 600))
		f(append([]byte("x"), bytes.Repeat([]byte("a"), 600)...))
		f(bytes.Repeat([]byte("ab"), 300))
		f(append([]byte("x"), bytes.Repeat([]byte("abc"), 200)...))
	}}
	return []Layer{
		// data appended while unparsed data is pending (no Shrink in between): edges recomputed with W > 0
		{Name: "osap-trickle", Kinds: []string{"OSAP"}, Geos: multiBlockGeos, Level: 0, Inputs: Binary(8), Menu: Menu{Trickle: true, ShrinkDev: true, NTL: true}, Bound: 1, CfgPerShard: 1},
		{Name: "osap-nested", Kinds: []string{"OSAP"}, CfgsFn: osapCfgs(wide, [][2]int{{2, 273}, {3, 273}, {4, 273}, {2, 4}}), Inputs: NestedPrefixes(), Menu: m, Bound: 1, CfgPerShard: 2},
		{Name: "osap-longmatch", Kinds: []string{"OSAP"}, CfgsFn: osapCfgs(long, [][2]int{{2, 274}, {2, 1000}, {3, 600}}), Inputs: longIn, Menu: m, Bound: 0, CfgPerShard: 1},
	}
}

// wideOnly keeps the geometries whose window, buffer and block all span the input.
func wideOnly(pc PCfg) bool {
	bc := pc.Config().BufConfig()
	bc.SetDefaults()
	return bc.WindowSize >= bc.BufferSize-1 && bc.BlockSize >= bc.BufferSize-1 && bc.ShrinkSize <= 1
}

func init() {
	register(&Check{
		ID: "C11",
		Shards: func(tier string) []engine.Shard {
			return parserShards("C11", append(osapExtraLayers(tier), osapLayers(tier)...), OracleC11)
		},
		Replay: func(raw json.RawMessage, col *engine.Collector) error {
			return replayParser("C11", raw, OracleC11, col)
		},
		Bounds: func(tier string) map[string]any {
			return layerBounds(append(osapExtraLayers(tier), osapLayers(tier)...))
		},
		Rule:        ruleParser,
		Explanation: "cost of every flags-0 block of OSAP equals the optimum of an independent O(n*window*maxlen) dynamic program over literal and match edges on the same buffer contents; XZCost is re-implemented in the reference and cross-checked against lz.XZCost",
		StatesNote:  "state = OSAP parser state hash (buffer, W, Off, edge bookkeeping); transition = one API call on the real parser",
		Assumptions: []string{"inputs/configurations bounded as stated", "the cost function is XZCost (the only one the configuration accepts)"},
	})
}

// XZCostCrossCheck compares the reference cost function with lz.XZCost on the
// boundary domain; it returns the first disagreement.
func XZCostCrossCheck() (m, o uint32, ok bool) {
	var os []uint32
	for sh := 0; sh < 32; sh++ {
		for d := -1; d <= 1; d++ {
			os = append(os, uint32(int64(1)<<sh+int64(d)))
		}
	}
	for m = 0; m <= 300; m++ {
		for _, o = range os {
			if m < 2 && o != 0 {
				continue
			}
			if lz.XZCost(m, o) != ref.XZCost(m, o) {
				return m, o, false
			}
		}
	}
	return 0, 0, true
}
