package harness

import (
	"encoding/binary"
	"fmt"
	"sort"

	"github.com/ulikunitz/lz"
	"verif/mc/ref"
)

// Stream is a finite stream of blocks that is well-formed for window W
// (checked with the reference expander) together with its expansion.
type Stream struct {
	Src    string     `json:"src"`
	W      int        `json:"window"`
	Blocks []lz.Block `json:"blocks"`
	Want   []byte     `json:"-"`
	MaxSeq int        `json:"max_seq_len"` // largest LitLen+MatchLen of a sequence
	MaxLit int        `json:"max_trailing_literals"`
}

func streamKey(blocks []lz.Block) string {
	var b []byte
	for _, blk := range blocks {
		b = binary.AppendUvarint(b, uint64(len(blk.Sequences)))
		for _, s := range blk.Sequences {
			b = binary.AppendUvarint(b, uint64(s.LitLen))
			b = binary.AppendUvarint(b, uint64(s.MatchLen))
			b = binary.AppendUvarint(b, uint64(s.Offset))
		}
		b = binary.AppendUvarint(b, uint64(len(blk.Literals)))
		b = append(b, blk.Literals...)
	}
	return string(b)
}

// finishStream computes the expansion and checks well-formedness for window W.
func finishStream(src string, W int, blocks []lz.Block) (Stream, bool) {
	s := Stream{Src: src, W: W, Blocks: blocks}
	var out []byte
	for i := range blocks {
		var err error
		out, _, _, err = ref.Expand(out, &blocks[i], W)
		if err != nil {
			return s, false
		}
		lit := 0
		for _, q := range blocks[i].Sequences {
			s.MaxSeq = max(s.MaxSeq, int(q.LitLen)+int(q.MatchLen))
			lit += int(q.LitLen)
		}
		s.MaxLit = max(s.MaxLit, len(blocks[i].Literals)-lit)
	}
	s.Want = out
	return s, true
}

// parseAll drives a fresh parser of the configuration over input with the
// default Write/Parse/Shrink loop and returns the emitted blocks (deep copies).
func parseAll(cfg lz.ParserConfig, input []byte) ([]lz.Block, error) {
	p, err := cfg.NewParser()
	if err != nil {
		return nil, err
	}
	var out []lz.Block
	var blk lz.Block
	in := input
	for guard := 0; guard < 4*len(input)+16; guard++ {
		n, _ := p.Write(in)
		in = in[n:]
		for {
			_, err := p.Parse(&blk, 0)
			if err != nil {
				break
			}
			out = append(out, ref.CloneBlock(&blk))
		}
		if len(in) == 0 {
			return out, nil
		}
		p.Shrink()
	}
	return out, fmt.Errorf("parseAll: input not consumed")
}

// StreamSpec says which streams to build.
type StreamSpec struct {
	W          int
	Inputs     InputSet
	BlockSizes []int
	BufSizes   []int
	Kinds      []string
	Synthetic  bool
}

// BuildStreams builds the de-duplicated family of streams for window W: the
// output of every listed parser kind (small search parameters) over every
// input, BlockSize and BufferSize of the spec, plus a synthetic family of
// well-formed streams with long matches and long literal runs.
func BuildStreams(sp StreamSpec) []Stream {
	seen := map[string]bool{}
	var out []Stream
	add := func(src string, blocks []lz.Block) {
		k := streamKey(blocks)
		if seen[k] || len(blocks) == 0 {
			return
		}
		s, ok := finishStream(src, sp.W, blocks)
		if !ok {
			return // not well-formed for W: C02's business, not ours
		}
		seen[k] = true
		out = append(out, s)
	}
	for _, kind := range sp.Kinds {
		for _, prm := range SearchParams(kind, 2) {
			if kind == "GSAP" && prm["MinMatchLen"] > 2 || kind == "OSAP" && (prm["MinMatchLen"] != 2 || prm["MaxMatchLen"] != 273) {
				continue
			}
			if il, ok := prm["InputLen"]; ok && il > 3 {
				continue
			}
			if hb, ok := prm["HashBits"]; ok && hb != 2 {
				continue
			}
			if hb, ok := prm["HashBits1"]; ok && (hb != 2 || prm["HashBits2"] != 2 || prm["InputLen2"] > 4) {
				continue
			}
			if bs, ok := prm["BucketSize"]; ok && bs != 2 {
				continue
			}
			for _, B := range sp.BufSizes {
				for _, bl := range sp.BlockSizes {
					c := Build(kind, lz.BufConfig{BufferSize: B, WindowSize: sp.W, BlockSize: bl}, prm)
					pc, ok := mkCfg(kind, c)
					if !ok {
						continue
					}
					cfg := pc.Config()
					sp.Inputs.Each(func(in []byte) {
						if len(in) == 0 {
							return
						}
						blocks, err := parseAll(cfg, in)
						if err != nil {
							return
						}
						add(fmt.Sprintf("%s %s input %q", kind, pc.JSON, in), blocks)
					})
				}
			}
		}
	}
	if sp.Synthetic {
		W := sp.W
		lits := func(n int, from int) []byte {
			b := make([]byte, n)
			for i := range b {
				b[i] = 'a' + byte((from+i)%3)
			}
			return b
		}
		// one leading literal block of p bytes, then one block with one or two sequences and trailing literals
		for _, p := range []int{1, 2, W, W + 1, 2*W + 1} {
			for _, l := range []int{0, 1, 2, W} {
				for _, m := range []int{1, 2, 3, W, W + 1, 2 * W, 3*W + 1} {
					for _, o := range []int{1, 2, W} {
						if o > min(W, p+l) {
							continue
						}
						for _, t := range []int{0, 1, W + 1, 2*W + 1} {
							b0 := lz.Block{Literals: lits(p, 0)}
							b1 := lz.Block{Sequences: []lz.Seq{{LitLen: uint32(l), MatchLen: uint32(m), Offset: uint32(o)}}, Literals: lits(l+t, p)}
							add(fmt.Sprintf("synthetic p=%d (L%d M%d O%d) t=%d", p, l, m, o, t), []lz.Block{b0, b1})
							if t <= 1 && m <= W+1 {
								b2 := lz.Block{Sequences: []lz.Seq{{LitLen: uint32(l), MatchLen: uint32(m), Offset: uint32(o)}, {LitLen: 1, MatchLen: uint32(m), Offset: 1}}, Literals: lits(l+1+t, p)}
								add(fmt.Sprintf("synthetic p=%d (L%d M%d O%d)(L1 M%d O1) t=%d", p, l, m, o, m, t), []lz.Block{b0, b2})
							}
						}
					}
				}
			}
		}
	}
	sort.SliceStable(out, func(i, j int) bool { return len(out[i].Want) < len(out[j].Want) })
	return out
}
