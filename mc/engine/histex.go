// Package engine contains the three small exploration engines of the lz model
// checker: histex (stateless deviation-bounded DFS over choice points), a
// generic explicit-state BFS helper and a cooperative scheduler, plus the
// shard pool, statistics, violation collection and evidence writing.
package engine

import (
	"fmt"
	"sync/atomic"
	"time"
)

// ReplayDivergence is the panic value used when a recorded prefix cannot be
// replayed (the execution is not a deterministic function of its choices).
type ReplayDivergence struct{ Msg string }

func (r ReplayDivergence) Error() string { return "replay divergence: " + r.Msg }

// Chooser hands out the decisions of one execution. The first len(prefix)
// choice points replay the prefix, every later point takes alternative 0 (the
// default answer).
type Chooser struct {
	prefix []int
	Ns     []int // number of alternatives offered at each point
	Cs     []int // alternative taken at each point
}

// Reset prepares the chooser for a new execution with the given prefix.
func (c *Chooser) Reset(prefix []int) {
	c.prefix = prefix
	c.Ns = c.Ns[:0]
	c.Cs = c.Cs[:0]
}

// Choose returns the alternative in [0,n) to take at this choice point. A point
// with a single alternative is not recorded.
func (c *Chooser) Choose(n int) int {
	if n <= 1 {
		return 0
	}
	ch := 0
	if i := len(c.Cs); i < len(c.prefix) {
		ch = c.prefix[i]
		if ch >= n || ch < 0 {
			panic(ReplayDivergence{fmt.Sprintf("choice %d out of range %d at point %d", ch, n, i)})
		}
	}
	c.Ns = append(c.Ns, n)
	c.Cs = append(c.Cs, ch)
	return ch
}

// Deviations returns the number of non-default choices taken so far.
func (c *Chooser) Deviations() int {
	d := 0
	for _, x := range c.Cs {
		if x != 0 {
			d++
		}
	}
	return d
}

// Choices returns a copy of the choices taken.
func (c *Chooser) Choices() []int { return append([]int(nil), c.Cs...) }

// SoftDeadline (unix nanoseconds, 0 = none) is the time after which Explore
// stops enumerating; Truncated counts the explorations that were cut short.
var (
	SoftDeadline atomic.Int64
	Truncated    atomic.Int64
)

// Explore enumerates every execution of run that departs from the default
// answers at no more than bound choice points. Executions always run to
// completion. It returns the number of executions and the total number of
// choice points met. run must be a deterministic function of the chooser.
//
// If SoftDeadline is set and has passed, the enumeration stops between two
// executions; Truncated counts the explorations cut short this way (the run
// is then reported as not exhaustive).
func Explore(bound int, run func(c *Chooser)) (execs, points int64) {
	var c Chooser
	var rec func(prefix []int, used int)
	stopped := false
	rec = func(prefix []int, used int) {
		if stopped {
			return
		}
		if execs&63 == 63 {
			if d := SoftDeadline.Load(); d != 0 && time.Now().UnixNano() > d {
				stopped = true
				Truncated.Add(1)
				return
			}
		}
		c.Reset(prefix)
		run(&c)
		execs++
		Progress.Add(1)
		if len(c.Cs) < len(prefix) {
			panic(ReplayDivergence{fmt.Sprintf("execution met %d points, prefix has %d", len(c.Cs), len(prefix))})
		}
		points += int64(len(c.Cs) - len(prefix))
		if used >= bound {
			return
		}
		// copy, because c is reused by the recursion
		ns := append([]int(nil), c.Ns...)
		cs := append([]int(nil), c.Cs...)
		for i := len(prefix); i < len(ns); i++ {
			for alt := 1; alt < ns[i]; alt++ {
				np := make([]int, i+1)
				copy(np, cs[:i])
				np[i] = alt
				rec(np, used+1)
			}
		}
	}
	rec(nil, 0)
	return execs, points
}
