package harness

import (
	"bytes"
	"encoding/json"
	"errors"
	"fmt"
	"io"
	"strings"
	"sync"

	"github.com/ulikunitz/lz"
	"verif/mc/engine"
)

// ---- C18: exactly-once output under writer faults ----

var errScriptedWriter = errors.New("scripted writer: injected error")

// faultWriter is the environment of the Decoder: every Write call is a choice
// point. Alternative 0 accepts everything; the deviations are errors (with 0,
// 1, len-1 or len bytes accepted) and short writes that violate the io.Writer
// contract by returning nil.
type faultWriter struct {
	c        *engine.Chooser
	want     []byte
	got      []byte
	calls    int
	errs     int // errors returned during the current API call
	silent   int // contract-violating short writes (nil error) during the current API call
	idle     int
	lastErr  error // the error of the most recent failing answer
	notPfx   bool
	pfxMsg   string
	contract bool // offer only contract-abiding answers
}

func (w *faultWriter) Write(p []byte) (int, error) {
	w.calls++
	if w.calls > 8*len(w.want)+256 || len(w.got) > 2*len(w.want)+64 {
		// far more writer calls or output than the whole expansion needs: the call will never end
		panic(spinPanic{})
	}
	type ans struct {
		k     int
		err   bool
		short bool // the error is io.ErrShortWrite, what a well-behaved writer returns for a short write
		full  bool // the error is lz.ErrFullBuffer: the writer is itself a buffer of this module (ParserBuffer.Write returns it)
	}
	var alts [16]ans
	na := 0
	add := func(k int, err bool) {
		for i := 0; i < na; i++ {
			if alts[i].k == k && alts[i].err == err {
				return
			}
		}
		alts[na] = ans{k: k, err: err}
		na++
	}
	n := len(p)
	add(n, false)
	add(0, true)
	if n >= 1 {
		add(1, true)
		add(n-1, true)
		add(n, true)
		if n >= 2 {
			alts[na] = ans{k: n - 1, err: true, short: true}
			na++
			alts[na] = ans{k: 1, err: true, short: true}
			na++
		}
		alts[na] = ans{k: 0, err: true, full: true}
		na++
		alts[na] = ans{k: min(1, n), err: true, full: true}
		na++
		if !w.contract {
			add(0, false)
			add(1, false)
			add(n-1, false)
		}
	}
	a := alts[w.c.Choose(na)]
	if n == 0 || a.k == 0 {
		w.idle++
		if w.idle > 10 { // idle is reset after every API call; a call legitimately makes one or two empty writer calls plus at most one per injected fault
			panic(spinPanic{})
		}
	} else {
		w.idle = 0
	}
	acc := p[:a.k]
	lo := len(w.got)
	w.got = append(w.got, acc...)
	if !w.notPfx && (len(w.got) > len(w.want) || !bytes.Equal(acc, w.want[lo:len(w.got)])) {
		w.notPfx = true
		w.pfxMsg = fmt.Sprintf("writer call %d accepted %q at output position %d; the reference expansion continues with %q", w.calls, acc, lo, w.want[min(lo, len(w.want)):min(lo+len(acc)+2, len(w.want))])
	}
	if a.err {
		w.errs++
		w.lastErr = errScriptedWriter
		if a.short {
			w.lastErr = io.ErrShortWrite
		}
		if a.full {
			w.lastErr = lz.ErrFullBuffer
		}
		return a.k, w.lastErr
	}
	if a.k < n {
		w.silent++
	}
	return a.k, nil
}

func isWriterErr(err error) bool {
	return err == errScriptedWriter || err == io.ErrShortWrite
}

// FOp is one operation of a decoder script.
type FOp struct {
	Kind string   `json:"kind"` // WriteBlock Write WriteByte Flush
	Blk  lz.Block `json:"blk,omitempty"`
	P    []byte   `json:"p,omitempty"`
}

// script variants: 0 all WriteBlock; 1 literal-only blocks through Write; 2
// literal-only blocks byte by byte; 3 Flush after every block
func makeScript(s *Stream, variant int) []FOp {
	var ops []FOp
	for _, b := range s.Blocks {
		switch {
		case len(b.Sequences) == 0 && variant == 1:
			ops = append(ops, FOp{Kind: "Write", P: b.Literals})
		case len(b.Sequences) == 0 && variant == 2:
			for _, c := range b.Literals {
				ops = append(ops, FOp{Kind: "WriteByte", P: []byte{c}})
			}
		default:
			ops = append(ops, FOp{Kind: "WriteBlock", Blk: b})
		}
		if variant == 3 {
			ops = append(ops, FOp{Kind: "Flush"})
		}
	}
	return ops
}

// FCase is the replayable description of a C18 execution.
type FCase struct {
	W, B     int
	Contract bool   `json:"contract_abiding_writer"`
	Variant  int    `json:"variant"`
	Src      string `json:"stream_source"`
	Blocks   []lz.Block
	Choices  []int    `json:"choices"`
	Log      []string `json:"log,omitempty"`
}

type faultRun struct {
	st       *engine.Stats
	col      *engine.Collector
	prop     string
	W, B     int
	s        *Stream
	ops      []FOp
	var_     int
	log      []string
	keep     bool
	c        *engine.Chooser
	contract bool
	outcomes map[uint64]struct{}
}

func (r *faultRun) fail(sig, format string, a ...any) {
	switch r.prop {
	case "C17": // the counts and Off under writer faults
		if !strings.HasPrefix(sig, "counts|") {
			return
		}
	case "C04": // bytes handed out exactly once, in order, also when the writer fails in between
		if !(strings.HasSuffix(sig, "not-prefix") || strings.HasSuffix(sig, "not-exactly-once")) {
			return
		}
	default:
		if strings.HasPrefix(sig, "counts|") {
			return
		}
	}
	full := r.prop + "|" + sig
	var cs any
	rank := int64(r.c.Deviations())<<40 + int64(len(r.s.Want))<<20 + int64(len(r.c.Cs))
	if !r.col.Seen(full) || r.keep {
		cs = FCase{W: r.W, B: r.B, Contract: r.contract, Variant: r.var_, Src: r.s.Src, Blocks: r.s.Blocks, Choices: r.c.Choices(), Log: r.log}
	}
	r.col.Report(engine.Violation{Property: r.prop, Sig: full, Msg: fmt.Sprintf(format, a...), Case: cs, Rank: rank})
}

// run executes the script once under the chooser. It returns false when the
// decoder refused an operation for size (C07 territory) so that the caller
// can count it.
func (r *faultRun) run(c *engine.Chooser) (refused bool) {
	r.c = c
	r.log = r.log[:0]
	w := &faultWriter{c: c, want: r.s.Want, contract: r.contract}
	d, err := lz.NewDecoder(w, lz.DecoderConfig{WindowSize: r.W, BufferSize: r.B})
	if err != nil {
		panic(err)
	}
	r.st.Execs++
	defer func() {
		if x := recover(); x != nil {
			if _, ok := x.(spinPanic); ok {
				if w.notPfx {
					r.fail("runaway|not-prefix", "a Decoder call produces output without end; %s", w.pfxMsg)
				}
				r.fail("spin", "a Decoder call keeps calling the writer without progress (W=%d B=%d)", r.W, r.B)
				return
			}
			if _, ok := x.(engine.ReplayDivergence); ok {
				panic(x)
			}
			r.fail("panic", "Decoder panicked: %v", x)
		}
	}()
	logf := func(format string, a ...any) {
		if r.keep {
			r.log = append(r.log, fmt.Sprintf(format, a...))
		}
	}
	// check after every API call; fromWriter tells whether the error just returned is the one the writer gave
	// (lz.ErrFullBuffer can come from the decoder itself or from a writer that is a buffer of this module)
	fromWriter := false
	after := func(name string, err error) (stop bool) {
		r.st.Transitions++
		if w.notPfx {
			r.fail(name+"|not-prefix", "%s", w.pfxMsg)
			return true
		}
		if w.errs > 0 && err != w.lastErr {
			r.fail(name+"|error-not-surfaced", "the writer returned an error during %s but the call returned %v", name, err)
			return true
		}
		fromWriter = w.errs > 0 && err != nil && err == w.lastErr
		if w.errs == 0 && isWriterErr(err) {
			r.fail(name+"|phantom-error", "%s returned the writer's error although the writer did not fail during the call", name)
			return true
		}
		w.errs = 0
		w.idle = 0
		return false
	}
	const maxTry = 12
	written := int64(0) // bytes the decoder reported as written since Init
	checkOff := func(name string) {
		if off := d.VerifBuffer().Off; off != written {
			r.fail("counts|"+name+"|Off", "after %s (writer faults injected) Off=%d but the calls reported %d bytes written in total", name, off, written)
		}
	}
	for _, op := range r.ops {
		switch op.Kind {
		case "WriteBlock":
			blk := lz.Block{Sequences: op.Blk.Sequences, Literals: op.Blk.Literals}
			for try := 0; ; try++ {
				n, k, l, err := d.WriteBlock(blk)
				logf("WriteBlock(%d seqs,%d lits) = n%d k%d l%d %v", len(blk.Sequences), len(blk.Literals), n, k, l, err)
				if after("WriteBlock", err) {
					return
				}
				if k < 0 || k > len(blk.Sequences) || l < 0 || l > len(blk.Literals) {
					r.fail("WriteBlock|kl-range", "WriteBlock returned k=%d l=%d for %d sequences, %d literals", k, l, len(blk.Sequences), len(blk.Literals))
					r.fail("counts|WriteBlock|kl-range", "WriteBlock returned k=%d l=%d for %d sequences, %d literals", k, l, len(blk.Sequences), len(blk.Literals))
					return
				}
				// n, k, l must describe exactly what was consumed, also when the writer failed in between
				base, want := 0, 0
				for _, q := range blk.Sequences[:k] {
					base += int(q.LitLen)
					want += int(q.LitLen) + int(q.MatchLen)
				}
				switch {
				case l < base || (k < len(blk.Sequences) && l != base):
					r.fail("counts|WriteBlock|l", "WriteBlock returned k=%d l=%d (err %v): the first %d sequences carry %d literal bytes", k, l, err, k, base)
				case n != want+(l-base):
					r.fail("counts|WriteBlock|n", "WriteBlock returned n=%d k=%d l=%d (err %v): %d sequences and %d further literals expand to %d bytes", n, k, l, err, k, l-base, want+(l-base))
				}
				written += int64(n)
				checkOff("WriteBlock")
				if err == nil {
					break
				}
				if !fromWriter {
					if isSizeRefusal(err) {
						return true
					}
					r.fail("WriteBlock|error", "WriteBlock of a well-formed block returned %v", err)
					return
				}
				if try >= maxTry {
					r.fail("WriteBlock|retry", "WriteBlock still fails after %d retries although the writer accepts everything now", try)
					return
				}
				blk = lz.Block{Sequences: blk.Sequences[k:], Literals: blk.Literals[l:]}
			}
		case "Write":
			p := op.P
			for try := 0; ; try++ {
				n, err := d.Write(p)
				logf("Write(%d) = %d %v", len(p), n, err)
				if after("Write", err) {
					return
				}
				if n < 0 || n > len(p) {
					r.fail("Write|n-range", "Write(%d bytes) returned n=%d", len(p), n)
					return
				}
				written += int64(n)
				checkOff("Write")
				if err == nil {
					if n != len(p) {
						r.fail("Write|short-nil", "Write(%d bytes) returned n=%d, nil", len(p), n)
						return
					}
					break
				}
				if !fromWriter {
					if isSizeRefusal(err) {
						return true
					}
					r.fail("Write|error", "Write returned %v", err)
					return
				}
				if try >= maxTry {
					r.fail("Write|retry", "Write still fails after %d retries", try)
					return
				}
				p = p[n:]
			}
		case "WriteByte":
			for try := 0; ; try++ {
				err := d.WriteByte(op.P[0])
				logf("WriteByte = %v", err)
				if after("WriteByte", err) {
					return
				}
				if err == nil {
					written++
					checkOff("WriteByte")
					break
				}
				if !fromWriter {
					r.fail("WriteByte|error", "WriteByte returned %v", err)
					return
				}
				if try >= maxTry {
					r.fail("WriteByte|retry", "WriteByte still fails after %d retries", try)
					return
				}
			}
		case "Flush":
			// a Flush in the middle: one attempt, errors are just surfaced
			err := d.Flush()
			logf("Flush = %v", err)
			if after("Flush", err) {
				return
			}
			w.silent = 0
		}
	}
	// final Flush until it succeeds
	for try := 0; ; try++ {
		w.silent = 0
		err := d.Flush()
		logf("Flush = %v", err)
		if after("Flush", err) {
			return
		}
		if err == nil && w.silent == 0 {
			break
		}
		if err != nil && !fromWriter {
			r.fail("Flush|error", "Flush returned %v", err)
			return
		}
		if try >= maxTry {
			r.fail("Flush|retry", "Flush still fails after %d retries", try)
			return
		}
	}
	if !bytes.Equal(w.got, r.s.Want) {
		r.fail("final|not-exactly-once", "after a successful Flush the writer has received %d bytes %q, the expansion has %d bytes %q", len(w.got), clip(w.got), len(r.s.Want), clip(r.s.Want))
	}
	if r.outcomes != nil {
		h := uint64(14695981039346656037)
		h = (h ^ inputKey(r.s.Want) ^ uint64(r.var_)<<56 ^ uint64(len(r.s.Blocks))<<48) * 1099511628211
		for _, x := range c.Cs {
			h = (h ^ uint64(x+1)) * 1099511628211
		}
		h = (h ^ uint64(w.calls)) * 1099511628211
		r.outcomes[h] = struct{}{}
	}
	return false
}

func clip(b []byte) []byte {
	if len(b) > 48 {
		return b[:48]
	}
	return b
}

var streamCache sync.Map // key -> *streamOnce

type streamOnce struct {
	once sync.Once
	s    []Stream
}

// cachedStreams builds a stream family once per process (shards of different
// geometries share it; streams are read-only).
func cachedStreams(key string, sp StreamSpec) []Stream {
	v, _ := streamCache.LoadOrStore(key, &streamOnce{})
	so := v.(*streamOnce)
	so.once.Do(func() { so.s = BuildStreams(sp) })
	return so.s
}

type faultGeo struct{ W, B int }

func faultGeos(tier string) []faultGeo {
	maxB := 6
	if tier == "thorough" {
		maxB = 8
	}
	var g []faultGeo
	for w := 1; w <= 4; w++ {
		for b := w + 1; b <= maxB; b++ {
			g = append(g, faultGeo{w, b})
		}
		g = append(g, faultGeo{w, 0})
	}
	return g
}

func faultSpec(W int, tier string) (StreamSpec, int, int) {
	sp := StreamSpec{W: W, Kinds: Kinds, Synthetic: true, BufSizes: []int{8}, BlockSizes: []int{2, 3, 5, 9}}
	if tier == "thorough" {
		sp.Inputs = Union(Binary(8), Ternary(5))
		return sp, 3, 4 // bound for long streams, bound for short streams
	}
	sp.Inputs = Union(Binary(6), Ternary(4))
	return sp, 2, 3
}

func faultShards(prop string) func(tier string) []engine.Shard {
	return func(tier string) []engine.Shard {
		var shards []engine.Shard
		for _, g := range faultGeos(tier) {
			for _, contract := range []bool{true, false} {
				g, contract := g, contract
				shards = append(shards, engine.Shard{
					Name: fmt.Sprintf("%s/W%d-B%d-contract%v", prop, g.W, g.B, contract),
					Run: func(st *engine.Stats, col *engine.Collector) {
						sp, boundLong, boundShort := faultSpec(g.W, tier)
						streams := cachedStreams(fmt.Sprintf("fault/%d/%s", g.W, tier), sp)
						st.Add("streams", int64(len(streams)))
						r := &faultRun{st: st, col: col, prop: prop, W: g.W, B: g.B, contract: contract, outcomes: map[uint64]struct{}{}}
						for i := range streams {
							s := &streams[i]
							r.s = s
							for variant := 0; variant < 4; variant++ {
								r.var_ = variant
								r.ops = makeScript(s, variant)
								// fault-free run first: streams the decoder refuses for size are C07's business
								var c0 engine.Chooser
								c0.Reset(nil)
								if r.run(&c0) {
									st.Add("streams_refused_fault_free(C07)", 1)
									continue
								}
								bound := boundLong
								if len(s.Want) <= 8 {
									bound = boundShort
								}
								clear(r.outcomes) // outcomes carry the stream and variant in their hash: count them per script to keep the set small
								refused := int64(0)
								ex, pts := engine.Explore(bound, func(c *engine.Chooser) {
									if r.run(c) {
										refused++
									}
								})
								st.Points += pts
								st.Add("execs_bound"+fmt.Sprint(bound), ex)
								st.Add("execs_refused_for_size_under_fault(C07)", refused)
								if len(r.outcomes) > 0 {
									st.Nontrivial++
								}
								st.Outcomes += int64(len(r.outcomes))
								st.States += int64(len(r.outcomes))
								if len(st.Samples) < 2 && len(s.Want) > 6 && variant == 0 {
									st.Sample(map[string]any{"W": g.W, "B": g.B, "stream": s.Src, "blocks": s.Blocks, "writer_calls_fault_free": len(c0.Cs)})
								}
							}
						}
					},
				})
			}
		}
		// one large geometry: flushes of more than 64 KiB (a writer fault in the middle of a large flush, literal runs
		// written in parts, a match longer than 64 KiB)
		for _, contract := range []bool{true} {
			contract := contract
			shards = append(shards, engine.Shard{
				Name: fmt.Sprintf("%s/large-W8-B200000-contract%v", prop, contract),
				Run: func(st *engine.Stats, col *engine.Collector) {
					r := &faultRun{st: st, col: col, prop: prop, W: 8, B: 200000, contract: contract, outcomes: map[uint64]struct{}{}}
					for _, s := range largeFaultStreams() {
						s := s
						r.s = &s
						for variant := 0; variant < 2; variant++ {
							r.var_ = variant
							r.ops = makeScript(&s, variant)
							clear(r.outcomes)
							ex, pts := engine.Explore(2, func(c *engine.Chooser) { r.run(c) })
							st.Points += pts
							st.Add("execs_large_streams", ex)
							st.Nontrivial++
							st.Outcomes += int64(len(r.outcomes))
							st.States += int64(len(r.outcomes))
						}
					}
				},
			})
		}
		return shards
	}
}

// largeFaultStreams: a literal block of 150 000 bytes followed by an overlapping match of 150 000 bytes (offset 5) and trailing literals,
// and the same with the literals split over three blocks.
func largeFaultStreams() []Stream {
	lits := make([]byte, 150000)
	for i := range lits {
		lits[i] = 'a' + byte((i*i+i/7)%23)
	}
	a := []lz.Block{{Literals: lits}, {Sequences: []lz.Seq{{LitLen: 2, MatchLen: 150000, Offset: 5}}, Literals: []byte("xyz")}}
	b := []lz.Block{{Literals: lits[:70000]}, {Literals: lits[70000:140000]}, {Sequences: []lz.Seq{{LitLen: 0, MatchLen: 160000, Offset: 3}}, Literals: lits[140000:]}}
	var out []Stream
	for i, blocks := range [][]lz.Block{a, b} {
		if s, ok := finishStream(fmt.Sprintf("large synthetic stream %d", i), 8, blocks); ok {
			out = append(out, s)
		}
	}
	return out
}

func replayFault(prop string, raw json.RawMessage, col *engine.Collector) error {
	var fc FCase
	if err := json.Unmarshal(raw, &fc); err != nil {
		return err
	}
	s, ok := finishStream(fc.Src, fc.W, fc.Blocks)
	if !ok {
		return fmt.Errorf("recorded stream is not well-formed")
	}
	var st engine.Stats
	r := &faultRun{st: &st, col: col, prop: prop, W: fc.W, B: fc.B, contract: fc.Contract, s: &s, var_: fc.Variant, keep: true}
	r.ops = makeScript(&s, fc.Variant)
	var c engine.Chooser
	c.Reset(fc.Choices)
	r.run(&c)
	if len(c.Cs) < len(fc.Choices) {
		return fmt.Errorf("replay met %d choice points, recorded %d", len(c.Cs), len(fc.Choices))
	}
	fmt.Printf("replayed W=%d B=%d %s: %v\n", fc.W, fc.B, fc.Src, r.log)
	return nil
}

func init() {
	register(&Check{
		ID:     "C18",
		Shards: faultShards("C18"),
		Replay: func(raw json.RawMessage, col *engine.Collector) error { return replayFault("C18", raw, col) },
		Bounds: func(tier string) map[string]any {
			sp, bl, bs := faultSpec(1, tier)
			var gs []string
			for _, g := range faultGeos(tier) {
				gs = append(gs, fmt.Sprintf("W=%d,B=%d", g.W, g.B))
			}
			return map[string]any{"geometries": gs, "stream_inputs": sp.Inputs.Name, "stream_block_sizes": sp.BlockSizes, "stream_parsers": sp.Kinds,
				"synthetic_streams": "leading literal block + one/two-sequence block with LitLen in {0,1,2,W}, MatchLen in {1,2,3,W,W+1,2W,3W+1}, Offset in {1,2,W}, trailing literals in {0,1,W+1,2W+1}",
				"script_variants":   "all WriteBlock; literal-only blocks through Write; literal-only blocks through WriteByte; Flush after every block",
				"writer_answers":    "accept all | (0,err) (1,err) (len-1,err) (len,err) | contract-violating (0,nil) (1,nil) (len-1,nil) in the second half of the shards",
				"fault_bound":       map[string]int{"streams_longer_than_8_bytes": bl, "short_streams": bs},
				"caller_protocol":   "on the writer's error retry Block{Sequences[k:],Literals[l:]} / p[n:] / the byte; Flush until nil"}
		},
		Rule:        "cases are (geometry, stream, script variant, fault placement) enumerated exhaustively up to the fault bound by the deviation-bounded DFS; distinct_nontrivial counts (geometry, stream, variant) triples whose exploration produced a new (fault placement, writer call count) outcome",
		Explanation: "every placement of up to N writer faults over the writer calls of a decoder script; after every call the accepted bytes must be a prefix of the reference expansion, the writer's error must be the one returned, and after the retry protocol and a successful Flush the writer holds the expansion exactly once",
		StatesNote:  "states = distinct (stream expansion, script variant, fault placement, number of writer calls) outcomes per geometry; transition = one Decoder API call executed on the real decoder",
		Assumptions: []string{"streams the fault-free decoder refuses for size are excluded (counted; they belong to C07)", "short writes that return a nil error violate io.Writer; they are explored for the prefix and exactly-once clauses with the caller flushing again after such a write"},
	})
}
