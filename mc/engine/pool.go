package engine

import (
	"encoding/json"
	"fmt"
	"os"
	"runtime"
	"sort"
	"sync"
	"sync/atomic"
	"time"
)

// Progress is bumped by every engine and driver once per execution / expanded
// node / text. The pool's monitor uses it to tell a run that is merely slow
// from one in which the remaining shards are stuck inside the code under test.
var Progress atomic.Int64

// Stats are the coverage counters of a check. Every worker owns one value and
// the pool adds them up.
type Stats struct {
	Execs       int64 // executions run on the implementation
	Points      int64 // choice points met
	Transitions int64 // API calls executed on the real code
	States      int64 // distinct abstract states (distinct per shard, shards are disjoint by construction)
	Outcomes    int64 // distinct observation traces (distinct per shard)
	Nontrivial  int64 // distinct cases that are non-trivial by the check's rule
	MaxDepth    int64
	Pruned      int64 // branches pruned after a violation
	Extra       map[string]int64
	Samples     []any
	CapsHit     []string
	note        atomic.Pointer[string]
}

// SetNote publishes what the shard is working on (configuration, input); it is
// reported when the shard turns out to be stuck.
func (s *Stats) SetNote(n string) { s.note.Store(&n) }

// Add adds x to the named extra counter.
func (s *Stats) Add(name string, x int64) {
	if s.Extra == nil {
		s.Extra = map[string]int64{}
	}
	s.Extra[name] += x
}

// Max keeps the maximum for the named extra counter.
func (s *Stats) Max(name string, x int64) {
	if s.Extra == nil {
		s.Extra = map[string]int64{}
	}
	if x > s.Extra[name] {
		s.Extra[name] = x
	}
}

// Sample keeps up to 6 samples.
func (s *Stats) Sample(x any) {
	if len(s.Samples) < 6 {
		s.Samples = append(s.Samples, x)
	}
}

// Merge adds the counters of o (e.g. of a worker process) to s.
func (s *Stats) Merge(o *Stats) { s.merge(o) }

func (s *Stats) merge(o *Stats) {
	s.Execs += o.Execs
	s.Points += o.Points
	s.Transitions += o.Transitions
	s.States += o.States
	s.Outcomes += o.Outcomes
	s.Nontrivial += o.Nontrivial
	s.Pruned += o.Pruned
	if o.MaxDepth > s.MaxDepth {
		s.MaxDepth = o.MaxDepth
	}
	for k, v := range o.Extra {
		if len(k) > 4 && k[:4] == "max_" {
			s.Max(k, v)
		} else {
			s.Add(k, v)
		}
	}
	for _, x := range o.Samples {
		s.Sample(x)
	}
	s.CapsHit = append(s.CapsHit, o.CapsHit...)
}

// Violation is one failed oracle.
type Violation struct {
	Property string `json:"property"`
	// Sig identifies the defect class: site, symptom and the condition class
	// decided by the oracle. Violations are de-duplicated by Sig and matched
	// against known_findings.json by Sig.
	Sig  string `json:"sig"`
	Msg  string `json:"msg"`
	Case any    `json:"case"` // everything needed to replay
	Rank int64  `json:"-"`    // smaller = simpler counterexample
}

// Collector gathers violations from all workers.
type Collector struct {
	mu    sync.Mutex
	bySig map[string]*Violation
	count map[string]int64
}

// NewCollector returns an empty collector.
func NewCollector() *Collector {
	return &Collector{bySig: map[string]*Violation{}, count: map[string]int64{}}
}

// Report records a violation; the simplest one per signature is kept.
func (c *Collector) Report(v Violation) {
	c.mu.Lock()
	defer c.mu.Unlock()
	c.count[v.Sig]++
	old, ok := c.bySig[v.Sig]
	if v.Case == nil && ok {
		return // counted only: a report without a case never replaces a replayable one
	}
	if !ok || old.Case == nil || v.Rank < old.Rank {
		vv := v
		c.bySig[v.Sig] = &vv
	}
}

// Seen tells whether a signature has been reported (cheap pre-check for
// oracles that want to avoid building a case description).
func (c *Collector) Seen(sig string) bool {
	c.mu.Lock()
	defer c.mu.Unlock()
	_, ok := c.bySig[sig]
	return ok
}

// All returns the kept violations sorted by signature, with counts.
func (c *Collector) All() ([]Violation, map[string]int64) {
	c.mu.Lock()
	defer c.mu.Unlock()
	var out []Violation
	for _, v := range c.bySig {
		out = append(out, *v)
	}
	sort.Slice(out, func(i, j int) bool { return out[i].Sig < out[j].Sig })
	cnt := map[string]int64{}
	for k, v := range c.count {
		cnt[k] = v
	}
	return out, cnt
}

// Shard is one element of the fixed partition of a check's search space.
type Shard struct {
	Name string
	Run  func(st *Stats, col *Collector)
}

// Current describes what a worker is doing; used by the watchdog.
type current struct {
	shard atomic.Pointer[string]
	st    atomic.Pointer[Stats]
	since atomic.Int64
}

// Pool runs shards on worker goroutines.
type Pool struct {
	Workers  int
	Deadline time.Time     // internal budget: shards not started before it are skipped (exhaustive=false)
	Watchdog time.Duration // a shard running longer than this is reported as hang suspect
	// Stall: if the global Progress counter does not move for this long while
	// shards are still running, those shards are reported as hang suspects.
	Stall time.Duration
	Seed     int64

	cur []current
}

// Note lets a shard publish the case it is currently executing, so that a hang
// can be attributed.
type Noter func(note string)

// Result of a pool run.
type Result struct {
	Stats       Stats
	ShardsTotal int
	ShardsDone  int
	Skipped     []string
	HangSuspect string
	HangNote    string // what the stuck shard was working on
	Wall        time.Duration
	Slowest     []ShardTime // the slowest shards (for tuning the partition)
}

// ShardTime is the duration of one shard and the time at which it ended.
type ShardTime struct {
	Name    string  `json:"shard"`
	Seconds float64 `json:"seconds"`
	EndedAt float64 `json:"ended_at_s"`
}

// Run executes all shards. Shard order is permuted by Seed (the partition
// itself never depends on it).
func (p *Pool) Run(shards []Shard, col *Collector) Result {
	start := time.Now()
	if p.Workers <= 0 {
		p.Workers = runtime.NumCPU()
	}
	order := make([]int, len(shards))
	for i := range order {
		order[i] = i
	}
	if p.Seed != 0 {
		x := uint64(p.Seed)*0x9e3779b97f4a7c15 + 1
		for i := len(order) - 1; i > 0; i-- {
			x ^= x << 13
			x ^= x >> 7
			x ^= x << 17
			j := int(x % uint64(i+1))
			order[i], order[j] = order[j], order[i]
		}
	}
	var next atomic.Int64
	var mu sync.Mutex
	res := Result{ShardsTotal: len(shards)}
	p.cur = make([]current, p.Workers)
	var wg sync.WaitGroup
	done := make(chan struct{})
	for w := 0; w < p.Workers; w++ {
		wg.Add(1)
		go func(w int) {
			defer wg.Done()
			for {
				k := int(next.Add(1)) - 1
				if k >= len(order) {
					return
				}
				sh := shards[order[k]]
				if !p.Deadline.IsZero() && time.Now().After(p.Deadline) {
					mu.Lock()
					res.Skipped = append(res.Skipped, sh.Name)
					mu.Unlock()
					continue
				}
				name := sh.Name
				p.cur[w].shard.Store(&name)
				p.cur[w].since.Store(time.Now().UnixNano())
				var st Stats
				p.cur[w].st.Store(&st)
				t0 := time.Now()
				sh.Run(&st, col)
				d := time.Since(t0)
				p.cur[w].shard.Store(nil)
				mu.Lock()
				res.Stats.merge(&st)
				res.ShardsDone++
				res.Slowest = append(res.Slowest, ShardTime{sh.Name, d.Seconds(), time.Since(start).Seconds()})
				mu.Unlock()
			}
		}(w)
	}
	go func() { wg.Wait(); close(done) }()
	tick := time.NewTicker(2 * time.Second)
	defer tick.Stop()
	lastProgress, lastMove := Progress.Load(), time.Now()
loop:
	for {
		select {
		case <-done:
			break loop
		case <-tick.C:
			var ms runtime.MemStats
			runtime.ReadMemStats(&ms)
			if ms.HeapAlloc > 20<<30 {
				// runaway allocation (a call into the code under test that produces data without end, or a harness bug):
				// stop cleanly before the kernel kills the process
				var running []string
				for w := range p.cur {
					if s := p.cur[w].shard.Load(); s != nil {
						running = append(running, *s)
					}
				}
				Fatalf("heap exceeds 20 GiB; shards running: %v", running)
			}
			if v := Progress.Load(); v != lastProgress {
				lastProgress, lastMove = v, time.Now()
			} else if p.Stall > 0 && time.Since(lastMove) > p.Stall {
				for w := range p.cur {
					if s := p.cur[w].shard.Load(); s != nil {
						res.HangSuspect = *s
						sort.Slice(res.Slowest, func(i, j int) bool { return res.Slowest[i].Seconds > res.Slowest[j].Seconds })
						if st := p.cur[w].st.Load(); st != nil {
							if n := st.note.Load(); n != nil {
								res.HangNote = *n
							}
						}
						break loop
					}
				}
			}
			if p.Watchdog <= 0 {
				continue
			}
			now := time.Now().UnixNano()
			for w := range p.cur {
				s := p.cur[w].shard.Load()
				if s == nil {
					continue
				}
				if time.Duration(now-p.cur[w].since.Load()) > p.Watchdog {
					res.HangSuspect = *s
					break loop
				}
			}
		}
	}
	res.Wall = time.Since(start)
	sort.Slice(res.Slowest, func(i, j int) bool { return res.Slowest[i].Seconds > res.Slowest[j].Seconds })
	if len(res.Slowest) > 8 {
		res.Slowest = res.Slowest[:8]
	}
	return res
}

// WriteJSON writes v as indented JSON.
func WriteJSON(path string, v any) error {
	b, err := json.MarshalIndent(v, "", " ")
	if err != nil {
		return err
	}
	return os.WriteFile(path, append(b, '\n'), 0o644)
}

// Fatalf reports an internal harness error (exit 2, never a VIOLATION).
func Fatalf(format string, a ...any) {
	fmt.Fprintf(os.Stderr, "lzmc: internal error: "+format+"\n", a...)
	os.Exit(2)
}
