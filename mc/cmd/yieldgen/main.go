// Command yieldgen instruments package lz of the repository under test with
// scheduling points: it inserts a call of verifYield() as first statement of
// every function body and of every for/range body of the non-test files of
// the CURRENT tree, writes the rewritten files next to an overlay description
// and prints the path of the overlay JSON for `go build -overlay`.
//
//	yieldgen <repo dir> <output dir>
package main

import (
	"encoding/json"
	"fmt"
	"go/ast"
	"go/parser"
	"go/printer"
	"go/token"
	"os"
	"path/filepath"
	"strings"
)

func main() {
	if len(os.Args) != 3 {
		fmt.Fprintln(os.Stderr, "usage: yieldgen <repo dir> <output dir>")
		os.Exit(2)
	}
	repo, out := os.Args[1], os.Args[2]
	if err := os.MkdirAll(out, 0o755); err != nil {
		fail(err)
	}
	entries, err := os.ReadDir(repo)
	if err != nil {
		fail(err)
	}
	replace := map[string]string{}
	points := 0
	// package suffix: function entries only (its loops run tens of thousands of iterations per sort)
	points += instrumentDir(filepath.Join(repo, "suffix"), filepath.Join(out, "suffix"), "suffix", false, replace)
	for _, e := range entries {
		name := e.Name()
		if e.IsDir() || !strings.HasSuffix(name, ".go") || strings.HasSuffix(name, "_test.go") || name == "export_verif.go" {
			continue
		}
		src := filepath.Join(repo, name)
		fset := token.NewFileSet()
		f, err := parser.ParseFile(fset, src, nil, parser.ParseComments)
		if err != nil {
			fail(err)
		}
		if f.Name.Name != "lz" {
			continue
		}
		n := instrument(f, true)
		if n == 0 {
			continue
		}
		points += n
		dst := filepath.Join(out, name)
		w, err := os.Create(dst)
		if err != nil {
			fail(err)
		}
		if err := (&printer.Config{Mode: printer.UseSpaces | printer.TabIndent, Tabwidth: 8}).Fprint(w, fset, f); err != nil {
			fail(err)
		}
		w.Close()
		replace[src] = dst
	}
	hook := filepath.Join(out, "zz_verif_yield.go")
	err = os.WriteFile(hook, []byte(`//go:build verif

package lz

func init() { VerifInstrumented = true }

func verifYield() {
	if VerifYield != nil {
		VerifYield()
	}
}
`), 0o644)
	if err != nil {
		fail(err)
	}
	replace[filepath.Join(repo, "zz_verif_yield.go")] = hook
	b, _ := json.MarshalIndent(map[string]any{"Replace": replace}, "", " ")
	ov := filepath.Join(out, "overlay.json")
	if err := os.WriteFile(ov, b, 0o644); err != nil {
		fail(err)
	}
	fmt.Printf("%s %d\n", ov, points)
}

func fail(err error) {
	fmt.Fprintln(os.Stderr, "yieldgen:", err)
	os.Exit(1)
}

func yieldStmt() ast.Stmt {
	return &ast.ExprStmt{X: &ast.CallExpr{Fun: ast.NewIdent("verifYield")}}
}

// instrumentDir rewrites the non-test files of one package directory and adds the yield function file.
func instrumentDir(dir, out, pkg string, loops bool, replace map[string]string) int {
	entries, err := os.ReadDir(dir)
	if err != nil {
		fail(err)
	}
	if err := os.MkdirAll(out, 0o755); err != nil {
		fail(err)
	}
	points := 0
	for _, e := range entries {
		name := e.Name()
		if e.IsDir() || !strings.HasSuffix(name, ".go") || strings.HasSuffix(name, "_test.go") || name == "export_verif.go" {
			continue
		}
		src := filepath.Join(dir, name)
		fset := token.NewFileSet()
		f, err := parser.ParseFile(fset, src, nil, parser.ParseComments)
		if err != nil {
			fail(err)
		}
		if f.Name.Name != pkg {
			continue
		}
		n := instrument(f, loops)
		if n == 0 {
			continue
		}
		points += n
		dst := filepath.Join(out, name)
		w, err := os.Create(dst)
		if err != nil {
			fail(err)
		}
		if err := (&printer.Config{Mode: printer.UseSpaces | printer.TabIndent, Tabwidth: 8}).Fprint(w, fset, f); err != nil {
			fail(err)
		}
		w.Close()
		replace[src] = dst
	}
	hook := filepath.Join(out, "zz_verif_yield.go")
	err = os.WriteFile(hook, []byte("//go:build verif\n\npackage "+pkg+"\n\nfunc verifYield() {\n\tif VerifYield != nil {\n\t\tVerifYield()\n\t}\n}\n"), 0o644)
	if err != nil {
		fail(err)
	}
	replace[filepath.Join(dir, "zz_verif_yield.go")] = hook
	return points
}

// suffixEntries are the functions of package suffix that get a yield point: the stages of a sort, called a few
// times per Sort. The bucket accessors and comparison helpers run millions of times and stay uninstrumented.
var suffixEntries = map[string]bool{"Sort": true, "sort": true, "newBBucketsPair": true, "bStarPositions": true, "ssort": true,
	"trSort": true, "trIntroSort": true, "LCP": true, "_lcp": true, "InvertSA": true, "Segments": true, "scanLCP": true}

func instrument(f *ast.File, loops bool) int {
	n := 0
	ast.Inspect(f, func(x ast.Node) bool {
		var body *ast.BlockStmt
		switch s := x.(type) {
		case *ast.FuncDecl:
			if loops || suffixEntries[s.Name.Name] {
				body = s.Body
			}
		case *ast.FuncLit:
			if loops {
				body = s.Body
			}
		case *ast.ForStmt:
			if loops {
				body = s.Body
			}
		case *ast.RangeStmt:
			if loops {
				body = s.Body
			}
		}
		if body != nil {
			body.List = append([]ast.Stmt{yieldStmt()}, body.List...)
			n++
		}
		return true
	})
	return n
}
