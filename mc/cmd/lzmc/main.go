// Command lzmc is the model checker for ulikunitz/lz.
//
//	lzmc check <ID> --tier quick|thorough [--evidence file] [--replays dir] [--known file]
//	lzmc replay <file>
//	lzmc list
package main

import (
	"encoding/json"
	"flag"
	"fmt"
	"os"
	"os/exec"
	"path/filepath"
	"runtime"
	"runtime/debug"
	"sort"
	"strconv"
	"strings"
	"syscall"
	"time"

	"verif/mc/engine"
	"verif/mc/harness"
)

type knownFinding struct {
	Property    string `json:"property"`
	Status      string `json:"status"` // open | fixed
	Sig         string `json:"sig"`
	Commit      string `json:"commit,omitempty"`
	Description string `json:"description"`
}

type knownFile struct {
	Findings []knownFinding `json:"findings"`
}

type replayFile struct {
	Property string          `json:"property"`
	Sig      string          `json:"sig"`
	Msg      string          `json:"msg"`
	Count    int64           `json:"occurrences"`
	Case     json.RawMessage `json:"case"`
	Howto    string          `json:"howto"`
}

func main() {
	if len(os.Args) < 2 {
		usage()
	}
	switch os.Args[1] {
	case "check":
		os.Exit(cmdCheck(os.Args[2:]))
	case "replay":
		os.Exit(cmdReplay(os.Args[2:]))
	case "shards":
		// lzmc shards <ID> [tier]: list the shard names of a check
		if len(os.Args) < 3 || harness.Registry[os.Args[2]] == nil {
			usage()
		}
		tier := "quick"
		if len(os.Args) > 3 {
			tier = os.Args[3]
		}
		for _, sh := range harness.Registry[os.Args[2]].Shards(tier) {
			fmt.Println(sh.Name)
		}
	case "worker":
		os.Exit(cmdWorker(os.Args[2:]))
	case "worker-replay":
		os.Exit(cmdWorkerReplay(os.Args[2:]))
	case "list":
		for _, id := range harness.IDs() {
			fmt.Println(id)
		}
	default:
		usage()
	}
}

func usage() {
	fmt.Fprintln(os.Stderr, "usage: lzmc check <ID> --tier quick|thorough | lzmc replay <file> | lzmc list")
	os.Exit(2)
}

func cmdCheck(args []string) int {
	if len(args) < 1 {
		usage()
	}
	id := args[0]
	fs := flag.NewFlagSet("check", flag.ExitOnError)
	tier := fs.String("tier", "quick", "quick or thorough")
	evidence := fs.String("evidence", "", "evidence file to write")
	replays := fs.String("replays", "", "directory for replay files")
	known := fs.String("known", "", "known findings file")
	workers := fs.Int("workers", 0, "worker goroutines (default: number of CPUs)")
	budget := fs.Duration("budget", 0, "internal time budget; shards not started before it expires are skipped (exhaustive=false)")
	fs.Parse(args[1:])
	if t := os.Getenv("VERIF_TIER"); t != "" && !flagSet(fs, "tier") {
		*tier = t
	}
	if *tier != "quick" && *tier != "thorough" {
		engine.Fatalf("unknown tier %q", *tier)
	}
	chk := harness.Registry[id]
	if chk == nil {
		engine.Fatalf("unknown check %q", id)
	}
	seed := int64(0)
	if s := os.Getenv("VERIF_SEED"); s != "" {
		seed, _ = strconv.ParseInt(s, 10, 64)
	}
	debug.SetGCPercent(400)
	debug.SetMemoryLimit(6 << 30) // soft limit: the collector works harder instead of letting garbage of large tables pile up

	start := time.Now()
	stallUnreproduced := false
	shards := chk.Shards(*tier)
	col := engine.NewCollector()
	pool := engine.Pool{Workers: *workers, Seed: seed, Watchdog: 45 * time.Minute, Stall: 100 * time.Second}
	if *budget > 0 {
		pool.Deadline = start.Add(*budget)
		// shards started before the deadline may run on for half the budget again; after that the
		// histex enumerations stop between two executions (explorations_truncated_by_budget)
		engine.SoftDeadline.Store(start.Add(*budget + *budget/2).UnixNano())
	}
	res := pool.Run(shards, col)
	if res.HangSuspect != "" {
		slowest := 0.0
		for _, x := range res.Slowest {
			slowest = max(slowest, x.Seconds)
		}
		if code := hangSuspect(id, *tier, res.HangSuspect, res.HangNote, *replays, time.Duration(slowest*float64(time.Second))); code != 2 {
			return code
		}
		// The stall did not repeat when the shard ran alone (the code under test may share state between the
		// instances of the parallel workers). Violations collected so far are still replayed and reported; if
		// none is confirmed the run ends as a harness error.
		stallUnreproduced = true
	}

	viols, counts := col.All()
	// A violation is only believed after it has been re-executed twice from its recorded case with identical result.
	var confirmed []engine.Violation
	unconfirmed := 0
	if stallUnreproduced {
		unconfirmed++
	}
	for _, v := range viols {
		if v.Case == nil {
			engine.Fatalf("violation %s was reported without a replayable case", v.Sig)
		}
		raw, err := json.Marshal(v.Case)
		if err != nil {
			engine.Fatalf("cannot marshal case: %v", err)
		}
		ok := true
		for i := 0; i < 2; i++ {
			c2 := engine.NewCollector()
			if err := safeReplay(chk, raw, c2); err != nil {
				fmt.Printf("replay of %s failed: %v\n", v.Sig, err)
				ok = false
				break
			}
			vs, _ := c2.All()
			found := false
			for _, x := range vs {
				if x.Sig == v.Sig {
					found = true
				}
			}
			if !found {
				ok = false
			}
		}
		if !ok {
			// Not believed: the case is not a deterministic function of its recorded choices (the code under
			// test shares state between the instances the worker pool runs in parallel, or the harness is at fault).
			fmt.Printf("UNCONFIRMED property=%s signature=%s: did not reproduce from its recorded case and is not counted: %s\n", id, v.Sig, raw)
			unconfirmed++
			continue
		}
		confirmed = append(confirmed, v)
	}

	var kf knownFile
	if *known != "" {
		if b, err := os.ReadFile(*known); err == nil {
			if err := json.Unmarshal(b, &kf); err != nil {
				engine.Fatalf("known findings file: %v", err)
			}
		}
	}
	open := map[string]knownFinding{}
	for _, f := range kf.Findings {
		if f.Status == "open" && f.Property == id {
			open[f.Sig] = f
		}
	}

	exit := 0
	var matched []string
	nviol := 0
	for i, v := range confirmed {
		raw, _ := json.Marshal(v.Case)
		path := ""
		if *replays != "" {
			os.MkdirAll(*replays, 0o755)
			path = filepath.Join(*replays, fmt.Sprintf("%s-%d.json", id, i+1))
			engine.WriteJSON(path, replayFile{Property: id, Sig: v.Sig, Msg: v.Msg, Count: counts[v.Sig], Case: raw,
				Howto: "bin/check replay " + path})
		}
		if f, ok := open[v.Sig]; ok {
			fmt.Printf("KNOWN-FINDING: property=%s %s [%s] (%d occurrences, e.g. %s)\n", id, f.Description, v.Sig, counts[v.Sig], path)
			matched = append(matched, v.Sig)
			continue
		}
		nviol++
		exit = 1
		fmt.Printf("VIOLATION property=%s replay=%s\n", id, path)
		fmt.Printf("  signature: %s (%d occurrences)\n  %s\n", v.Sig, counts[v.Sig], v.Msg)
	}

	st := res.Stats
	truncated := engine.Truncated.Load()
	exhaustive := len(res.Skipped) == 0 && len(st.CapsHit) == 0 && !stallUnreproduced && truncated == 0
	cov := map[string]any{
		"states":                           max(st.States, 1),
		"transitions":                      max(st.Transitions, 1),
		"traces_validated_against_impl":    st.Execs,
		"evaluations":                      st.Execs,
		"distinct_nontrivial":              st.Nontrivial,
		"distinct_outcomes":                st.Outcomes,
		"choice_points":                    st.Points,
		"max_depth":                        st.MaxDepth,
		"rule":                             chk.Rule,
		"explanation":                      chk.Explanation,
		"states_transitions_meaning":       chk.StatesNote,
		"exhaustive":                       exhaustive,
		"shards_total":                     res.ShardsTotal,
		"shards_done":                      res.ShardsDone,
		"shards_skipped_by_budget":         len(res.Skipped),
		"explorations_truncated_by_budget": truncated,
		"caps_hit":                         st.CapsHit,
		"pruned_after_violation":           st.Pruned,
		"known_findings_matched":           matched,
		"violation_signatures":             counts,
		"violations_not_reproduced":        unconfirmed,
		"workers":                          poolWorkers(*workers),
		"slowest_shards":                   res.Slowest,
	}
	if st.States == 0 {
		cov["states_note"] = "this check does not hash abstract states; states is reported as 1"
	}
	for k, v := range st.Extra {
		cov[k] = v
	}
	if chk.Bounds != nil {
		cov["bounds"] = chk.Bounds(*tier)
	}
	samples := st.Samples
	if len(samples) == 0 {
		samples = []any{"(no sample recorded)"}
	}
	cov["samples"] = samples
	if chk.Post != nil {
		chk.Post(*tier, &res, cov)
	}
	ev := map[string]any{
		"property_id": id,
		"tier":        *tier,
		"seed":        seed,
		"level":       "model_checking",
		"coverage":    cov,
		"assumptions": chk.Assumptions,
		"wall_s":      time.Since(start).Seconds(),
		"violations":  nviol,
	}
	if *evidence != "" {
		os.MkdirAll(filepath.Dir(*evidence), 0o755)
		if err := engine.WriteJSON(*evidence, ev); err != nil {
			engine.Fatalf("write evidence: %v", err)
		}
	}
	fmt.Printf("%s tier=%s execs=%d transitions=%d states=%d outcomes=%d nontrivial=%d shards=%d/%d exhaustive=%v violations=%d known=%d wall=%.1fs\n",
		id, *tier, st.Execs, st.Transitions, st.States, st.Outcomes, st.Nontrivial, res.ShardsDone, res.ShardsTotal, exhaustive, nviol, len(matched), time.Since(start).Seconds())
	if exit == 0 && unconfirmed > 0 {
		fmt.Fprintf(os.Stderr, "lzmc: internal error: %d violation(s) were seen during the exploration but none reproduced from its recorded case\n", unconfirmed)
		exit = 2
	}
	var keys []string
	for k := range st.Extra {
		keys = append(keys, k)
	}
	sort.Strings(keys)
	var sb strings.Builder
	for _, k := range keys {
		fmt.Fprintf(&sb, " %s=%d", k, st.Extra[k])
	}
	if sb.Len() > 0 {
		fmt.Println(" " + sb.String())
	}
	return exit
}

func poolWorkers(w int) int {
	if w > 0 {
		return w
	}
	return runtime.NumCPU()
}

func flagSet(fs *flag.FlagSet, name string) bool {
	set := false
	fs.Visit(func(f *flag.Flag) {
		if f.Name == name {
			set = true
		}
	})
	return set
}

func safeReplay(chk *harness.Check, raw json.RawMessage, col *engine.Collector) (err error) {
	defer func() {
		if r := recover(); r != nil {
			err = fmt.Errorf("panic during replay: %v\n%s", r, debug.Stack())
		}
	}()
	return chk.Replay(raw, col)
}

func cmdReplay(args []string) int {
	if len(args) < 1 {
		usage()
	}
	b, err := os.ReadFile(args[0])
	if err != nil {
		engine.Fatalf("%v", err)
	}
	var rf replayFile
	if err := json.Unmarshal(b, &rf); err != nil {
		engine.Fatalf("%v", err)
	}
	chk := harness.Registry[rf.Property]
	if chk == nil {
		engine.Fatalf("unknown property %q", rf.Property)
	}
	col := engine.NewCollector()
	if err := safeReplay(chk, rf.Case, col); err != nil {
		if strings.Contains(err.Error(), "choice points") {
			fmt.Printf("replay: the execution took a different course than the recorded one (%v): the recorded violation does not occur on this tree\n", err)
			return 0
		}
		engine.Fatalf("%v", err)
	}
	vs, _ := col.All()
	if len(vs) == 0 {
		fmt.Println("replay: no violation")
		return 0
	}
	for _, v := range vs {
		fmt.Printf("VIOLATION property=%s replay=%s\n  signature: %s\n  %s\n", v.Property, args[0], v.Sig, v.Msg)
	}
	return 1
}

// cmdWorker runs one shard of a check in this process and prints its result
// as JSON (used to run the loop-level shards in the yield-instrumented build).
func cmdWorker(args []string) int {
	if len(args) < 2 {
		usage()
	}
	chk := harness.Registry[args[0]]
	if chk == nil {
		engine.Fatalf("unknown check %q", args[0])
	}
	tier := "quick"
	for i := 2; i+1 < len(args); i++ {
		if args[i] == "--tier" {
			tier = args[i+1]
		}
	}
	for _, sh := range chk.Shards(tier) {
		if sh.Name != args[1] {
			continue
		}
		var st engine.Stats
		col := engine.NewCollector()
		sh.Run(&st, col)
		vs, counts := col.All()
		b, err := json.Marshal(harness.WorkerResult{Stats: st, Violations: vs, Counts: counts})
		if err != nil {
			engine.Fatalf("%v", err)
		}
		os.Stdout.Write(b)
		return 0
	}
	engine.Fatalf("check %s has no shard %q", args[0], args[1])
	return 2
}

func cmdWorkerReplay(args []string) int {
	if len(args) < 2 {
		usage()
	}
	chk := harness.Registry[args[0]]
	if chk == nil {
		engine.Fatalf("unknown check %q", args[0])
	}
	col := engine.NewCollector()
	if err := safeReplay(chk, json.RawMessage(args[1]), col); err != nil {
		engine.Fatalf("%v", err)
	}
	vs, counts := col.All()
	b, _ := json.Marshal(harness.WorkerResult{Violations: vs, Counts: counts})
	os.Stdout.Write(b)
	return 0
}

// hangSuspect handles a shard that stopped making progress: the stuck
// goroutine cannot be recovered, so the shard is run again alone in a fresh
// process under a generous limit. Only a hang that shows again is believed. It
// is a VIOLATION for the properties that promise termination/progress (C03,
// C06, C09, C16); for every other check it ends the run with exit 3.
func hangSuspect(id, tier, shard, note, replays string, slowestShard time.Duration) int {
	fmt.Printf("HANG-SUSPECT property=%s shard=%s working on: %s\n", id, shard, note)
	// the slowest shard that did finish took slowestShard under full load; alone the suspect gets four times that plus 90 s
	limit := min(4*slowestShard+90*time.Second, 15*time.Minute)
	confirmed := false
	if exe, err := os.Executable(); err == nil {
		cmd := exec.Command(exe, "worker", id, shard, "--tier", tier)
		cmd.Env = append(os.Environ(), "LZMC_CHILD=1")
		cmd.SysProcAttr = &syscall.SysProcAttr{Pdeathsig: syscall.SIGKILL}
		done := make(chan error, 1)
		if err := cmd.Start(); err == nil {
			go func() { done <- cmd.Wait() }()
			select {
			case <-done:
				fmt.Printf("the shard finished when it was run alone: not a reproducible hang\n")
			case <-time.After(limit):
				cmd.Process.Kill()
				confirmed = true
			}
		}
	}
	if !confirmed {
		fmt.Fprintf(os.Stderr, "lzmc: internal error: shard %s stalled but the stall did not reproduce\n", shard)
		return 2
	}
	path := ""
	if replays != "" {
		os.MkdirAll(replays, 0o755)
		path = filepath.Join(replays, id+"-hang.json")
		engine.WriteJSON(path, map[string]any{"property": id, "sig": id + "|hang|" + shard, "msg": "the shard does not terminate", "hang_shard": shard, "tier": tier, "working_on": note,
			"howto": fmt.Sprintf("lzmc worker %s %q --tier %s   (does not return)", id, shard, tier)})
	}
	switch id {
	case "C03", "C06", "C09", "C16":
		fmt.Printf("VIOLATION property=%s replay=%s\n  signature: %s|hang\n  shard %s does not terminate (run twice, the second time alone with a limit of %v); it was working on: %s\n", id, path, id, shard, limit.Round(time.Second), note)
		return 1
	}
	fmt.Printf("shard %s does not terminate (confirmed); non-termination is the business of C03/C06/C09/C16, this check cannot decide its property: %s\n", shard, path)
	return 3
}
