package harness

import (
	"bytes"
	"encoding/hex"
	"encoding/json"
	"fmt"
	"strings"

	"github.com/ulikunitz/lz"
	"verif/mc/engine"
)

// ---- C07: whatever the parsers emit, the Decoder with the same window accepts ----

// ACase is the replayable description of a C07 product execution.
type ACase struct {
	Kind    string `json:"kind"`
	Cfg     string `json:"cfg"`
	Input   string `json:"input_hex"`
	Text    string `json:"input_text,omitempty"`
	DecB    int    `json:"decoder_buffer_size"` // as configured, 0 = default
	Choices []int  `json:"choices"`
	Log     string `json:"log,omitempty"`
}

type countingWriter struct {
	got   []byte
	empty int
	limit int
}

func (w *countingWriter) Write(p []byte) (int, error) {
	if w.limit > 0 && len(w.got) > w.limit {
		panic(spinPanic{}) // far more output than the input has bytes: the call will never end
	}
	if len(p) == 0 {
		w.empty++
		if w.empty > 8 {
			panic(spinPanic{})
		}
	} else {
		w.empty = 0
	}
	w.got = append(w.got, p...)
	return len(p), nil
}

type acceptRun struct {
	st     *engine.Stats
	col    *engine.Collector
	prop   string
	pc     PCfg
	input  []byte
	stream *Stream
	W      int
	decB   int
	c      *engine.Chooser
	log    []byte
}

func (r *acceptRun) report(sig, format string, a ...any) {
	if r.prop != "C07" && (strings.Contains(sig, "|refused|") || strings.HasSuffix(sig, "|spin")) {
		return // refusals for size belong to C07, retry loops to C06
	}
	full := r.prop + "|" + sig
	if r.col.Seen(full) {
		r.col.Report(engine.Violation{Property: r.prop, Sig: full, Rank: 1 << 62}) // counted only
		return
	}
	var cs any
	{
		cs = ACase{Kind: r.pc.Kind, Cfg: r.pc.JSON, Input: hex.EncodeToString(r.input), Text: printable(r.input), DecB: r.decB, Choices: r.c.Choices(), Log: string(r.log)}
	}
	r.col.Report(engine.Violation{Property: r.prop, Sig: full, Msg: fmt.Sprintf(format, a...), Case: cs,
		Rank: int64(r.c.Deviations())<<40 + int64(len(r.input))<<20 + int64(r.decB)})
}

// decBufSizes returns the decoder BufferSize values paired with window W.
func decBufSizes(W int) []int {
	seen := map[int]bool{}
	var out []int
	for _, b := range []int{0, W + 1, W + 2, 2*W - 1, 2 * W, 3 * W, 3*W + 2} {
		if b != 0 && b <= W || seen[b] {
			continue
		}
		seen[b] = true
		out = append(out, b)
	}
	return out
}

// run feeds the stream into a Decoder; choice points: Flush before a block.
func (r *acceptRun) run(c *engine.Chooser) {
	r.c = c
	r.log = r.log[:0]
	r.st.Execs++
	w := &countingWriter{limit: 2*len(r.input) + 64}
	d, err := lz.NewDecoder(w, lz.DecoderConfig{WindowSize: r.W, BufferSize: r.decB})
	if err != nil {
		panic(fmt.Errorf("decoder config W=%d B=%d rejected: %v", r.W, r.decB, err))
	}
	B := r.decB
	if B == 0 {
		B = 2 * r.W
	}
	defer func() {
		if x := recover(); x != nil {
			if _, ok := x.(spinPanic); ok {
				r.report("Decoder.WriteBlock|spin", "Decoder keeps calling the writer without progress on parser output (W=%d B=%d)", r.W, r.decB)
				return
			}
			if _, ok := x.(engine.ReplayDivergence); ok {
				panic(x)
			}
			r.report("Decoder.WriteBlock|panic", "Decoder panicked on well-formed parser output: %v (W=%d B=%d)", x, r.W, r.decB)
		}
	}()
	for i := range r.stream.Blocks {
		blk := r.stream.Blocks[i]
		if i > 0 && c.Choose(2) == 1 {
			if err := d.Flush(); err != nil {
				r.report("Decoder.Flush|error", "Flush returned %v", err)
				return
			}
			r.st.Transitions++
			r.log = append(r.log, "Flush "...)
		}
		n, k, l, err := d.WriteBlock(blk)
		r.st.Transitions++
		r.log = append(r.log, fmt.Sprintf("WriteBlock#%d=%d,%d,%d,%v ", i, n, k, l, err)...)
		if err != nil {
			// classify the refusal exactly like the state machine check does
			if err != lz.ErrFullBuffer {
				if !isSizeRefusal(err) {
					r.report("Decoder.WriteBlock|error", "Decoder.WriteBlock returned %v for block %d of well-formed parser output (W=%d B=%d): %+v", err, i, r.W, r.decB, blk)
					return
				}
			}
			if k < 0 || k > len(blk.Sequences) {
				r.report("Decoder.WriteBlock|nkl", "WriteBlock returned k=%d for %d sequences", k, len(blk.Sequences))
				return
			}
			written := 0
			for j := 0; j < i; j++ {
				written += int(blockLen(&r.stream.Blocks[j]))
			}
			for _, q := range blk.Sequences[:k] {
				written += int(q.LitLen) + int(q.MatchLen)
			}
			class := refusalClass(B, r.W, written, &blk, k, err)
			r.report("Decoder.WriteBlock|refused|"+class, "Decoder.WriteBlock refused block %d of well-formed parser output at sequence %d with %v (W=%d B=%d): %+v", i, k, err, r.W, r.decB, blk)
			r.st.Pruned++
			return
		}
		if n != int(blockLen(&blk)) || k != len(blk.Sequences) || l != len(blk.Literals) {
			r.report("Decoder.WriteBlock|nkl", "WriteBlock succeeded with n=%d k=%d l=%d for a block of %d bytes, %d sequences, %d literals", n, k, l, blockLen(&blk), len(blk.Sequences), len(blk.Literals))
			return
		}
	}
	if err := d.Flush(); err != nil {
		r.report("Decoder.Flush|error", "Flush returned %v", err)
		return
	}
	r.st.Transitions++
	if !bytes.Equal(w.got, r.input) {
		r.report("output-mismatch", "after Flush the writer holds %q, the parser was fed %q (W=%d B=%d)", clip(w.got), clip(r.input), r.W, r.decB)
	}
}

// feedIllFormed writes parser output that the reference expander rejects for
// window W into a Decoder with the same window; an error other than a size
// refusal is reported.
func (r *acceptRun) feedIllFormed(blocks []lz.Block) {
	var c engine.Chooser
	c.Reset(nil)
	r.c = &c
	r.log = r.log[:0]
	defer func() {
		if x := recover(); x != nil {
			r.report("Decoder.WriteBlock|panic", "Decoder panicked on parser output: %v (W=%d)", x, r.W)
		}
	}()
	w := &countingWriter{}
	d, err := lz.NewDecoder(w, lz.DecoderConfig{WindowSize: r.W})
	if err != nil {
		return
	}
	for i, blk := range blocks {
		_, _, _, err := d.WriteBlock(blk)
		r.st.Transitions++
		if err != nil {
			if !isSizeRefusal(err) {
				r.report("Decoder.WriteBlock|parser-output-rejected", "block %d emitted by the parser with WindowSize %d is rejected by a Decoder with the same window: %v; block %+v", i, r.W, err, blk)
			}
			return
		}
	}
}

func blockLen(b *lz.Block) int64 {
	n := int64(len(b.Literals))
	for _, s := range b.Sequences {
		n += int64(s.MatchLen)
	}
	return n
}

func acceptLayers(tier string) []Layer {
	sa := []string{"GSAP", "OSAP"}
	if tier == "thorough" {
		return []Layer{
			{Name: "hash", Kinds: HashKinds, BufSizes: []int{2, 3, 5, 8, 16}, Level: 2, Inputs: Union(Binary(10), Ternary(6), ZeroA(6)), Bound: 2},
			{Name: "hash-long", Kinds: HashKinds, BufSizes: []int{16, 40, 100}, Level: 2, Inputs: StructuredSet(17, 40, 70, 130), Bound: 1},
			{Name: "sa", Kinds: sa, BufSizes: []int{2, 3, 5, 8, 16}, Level: 0, Inputs: Union(Binary(7), ZeroA(4)), Bound: 2},
			{Name: "sa-long", Kinds: sa, BufSizes: []int{16, 40}, Level: 0, Inputs: StructuredSet(17, 40, 70), Bound: 1},
			{Name: "large", Kinds: Kinds, CfgsFn: largeConfigs, Inputs: Union(LargeSet(140000), LargeSet(200003)), Bound: 1, CfgPerShard: 1},
		}
	}
	return []Layer{
		{Name: "large", Kinds: HashKinds, CfgsFn: largeConfigs, Inputs: LargeSet(140000), Bound: 0, CfgPerShard: 1},
		{Name: "large-sa", Kinds: []string{"GSAP", "OSAP"}, CfgsFn: largeConfigs, Inputs: LargeSet(70000), Bound: 0, CfgPerShard: 1},
		{Name: "hash", Kinds: HashKinds, BufSizes: []int{2, 3, 5, 8}, Level: 2, Inputs: Union(Binary(7), ZeroA(4)), Bound: 1},
		{Name: "hash-long", Kinds: HashKinds, BufSizes: []int{16}, Level: 2, Inputs: FewLong(33), Bound: 1},
		{Name: "sa", Kinds: sa, BufSizes: []int{2, 3, 5, 8}, Level: 0, Inputs: Binary(5), Bound: 1},
		{Name: "sa-long", Kinds: sa, BufSizes: []int{16}, Level: 0, Inputs: FewLong(33), Bound: 1},
	}
}

// acceptLayersFor returns the product layers of a check: C07 owns the full
// set, C04 (exact expansion of real parser output) a lighter one in the quick tier.
func acceptLayersFor(prop, tier string) []Layer {
	if prop != "C07" && tier != "thorough" {
		return []Layer{
			{Name: "hash", Kinds: HashKinds, BufSizes: []int{2, 3, 5}, Level: 2, Inputs: Binary(6), Bound: 1},
			{Name: "sa", Kinds: []string{"GSAP", "OSAP"}, BufSizes: []int{3, 5}, Level: 0, Inputs: Binary(4), Bound: 1},
		}
	}
	return acceptLayers(tier)
}

func acceptShards(prop, tier string) []engine.Shard {
	var shards []engine.Shard
	for _, l := range acceptLayersFor(prop, tier) {
		l := l
		geo := Geometry(l.BufSizes)
		for _, kind := range l.Kinds {
			cfgs := Configs(kind, geo, l.Level)
			if l.CfgsFn != nil {
				cfgs = nil
				for _, c := range l.CfgsFn() {
					if c.Kind == kind {
						cfgs = append(cfgs, c)
					}
				}
			}
			per := 24
			if l.CfgPerShard > 0 {
				per = l.CfgPerShard
			}
			for lo := 0; lo < len(cfgs); lo += per {
				part := cfgs[lo:min(lo+per, len(cfgs))]
				shards = append(shards, engine.Shard{
					Name: fmt.Sprintf("%s/product/%s/%s/cfg%d", prop, l.Name, kind, lo),
					Run: func(st *engine.Stats, col *engine.Collector) {
						r := &acceptRun{st: st, col: col, prop: prop}
						for _, pc := range part {
							r.pc = pc
							cfg := pc.Config()
							bc := cfg.BufConfig()
							bc.SetDefaults()
							r.W = bc.WindowSize
							seen := map[string]bool{}
							l.Inputs.Each(func(in []byte) {
								if len(in) == 0 {
									return
								}
								blocks, err := parseAll(cfg, in)
								if err != nil {
									return
								}
								st.Add("parser_runs", 1)
								k := streamKey(blocks)
								if seen[k] {
									st.Add("streams_duplicate", 1)
									return
								}
								seen[k] = true
								s, ok := finishStream("", r.W, blocks)
								if !ok || !bytes.Equal(s.Want, in) {
									st.Add("streams_not_wellformed_or_wrong(C01/C02)", 1)
									// "everything a parser of this module emits with WindowSize W is accepted": the parser's
									// stream is not well-formed for W (C02's finding), but a refusal by the decoder with the
									// same window is also a violation of this clause
									if prop == "C07" {
										r.stream, r.input, r.decB = &s, in, 0
										r.feedIllFormed(blocks)
									}
									return
								}
								st.Nontrivial++
								if s.MaxSeq > r.W {
									st.Add("streams_with_sequence_longer_than_window", 1)
								}
								r.stream, r.input = &s, in
								for _, b := range decBufSizes(r.W) {
									r.decB = b
									ex, pts := engine.Explore(l.Bound, r.run)
									st.Points += pts
									st.Add("execs_"+l.Name, ex)
								}
								if len(st.Samples) < 2 && s.MaxSeq > r.W {
									st.Sample(ACase{Kind: pc.Kind, Cfg: pc.JSON, Input: hex.EncodeToString(in), Text: printable(in), DecB: r.decB, Log: string(r.log)})
								}
							})
							st.States += int64(len(seen))
							st.Add("configs", 1)
						}
					},
				})
			}
		}
	}
	return shards
}

func replayAccept(prop string, raw json.RawMessage, col *engine.Collector) error {
	var ac ACase
	if err := json.Unmarshal(raw, &ac); err != nil {
		return err
	}
	in, err := hex.DecodeString(ac.Input)
	if err != nil {
		return err
	}
	if ac.Kind == "synthetic" {
		var st engine.Stats
		defaultBufferShard(prop).Run(&st, col) // the three synthetic streams are re-run as a whole
		return nil
	}
	pc := PCfg{Kind: ac.Kind, JSON: ac.Cfg}
	cfg := pc.Config()
	bc := cfg.BufConfig()
	bc.SetDefaults()
	blocks, err := parseAll(cfg, in)
	if err != nil {
		return err
	}
	s, ok := finishStream("", bc.WindowSize, blocks)
	var st engine.Stats
	r := &acceptRun{st: &st, col: col, prop: prop, pc: pc, input: in, stream: &s, W: bc.WindowSize, decB: ac.DecB}
	if !ok || !bytes.Equal(s.Want, in) {
		if prop == "C07" {
			r.feedIllFormed(blocks)
		}
		fmt.Printf("replayed %s %s input %q: parser output is not well-formed for its window\n", ac.Kind, ac.Cfg, in)
		return nil
	}
	var c engine.Chooser
	c.Reset(ac.Choices)
	r.run(&c)
	if len(c.Cs) < len(ac.Choices) {
		return fmt.Errorf("replay met %d choice points, recorded %d", len(c.Cs), len(ac.Choices))
	}
	fmt.Printf("replayed %s %s input %q decoder B=%d: %s\n", ac.Kind, ac.Cfg, in, ac.DecB, r.log)
	return nil
}

// defaultBufferShard feeds synthetic streams whose sequences are as long as a window of one to eight mebibytes
// into Decoders with the DEFAULT BufferSize: every sequence of at most WindowSize bytes must be accepted.
func defaultBufferShard(prop string) engine.Shard {
	return engine.Shard{Name: prop + "/default-buffer-large-window", Run: func(st *engine.Stats, col *engine.Collector) {
		for _, W := range []int{1<<20 + 1, 2 << 20, 8 << 20} {
			blocks := []lz.Block{
				{Literals: []byte("ab")},
				{Sequences: []lz.Seq{{MatchLen: uint32(W/2 + W/4), Offset: 1}}},
				{Sequences: []lz.Seq{{LitLen: 1, MatchLen: uint32(W - 1), Offset: 2}}, Literals: []byte("c")},
				{Sequences: []lz.Seq{{MatchLen: uint32(W), Offset: uint32(W)}}, Literals: []byte("xyz")},
			}
			s, ok := finishStream(fmt.Sprintf("synthetic large-window stream W=%d", W), W, blocks)
			if !ok {
				panic("harness: large-window stream is not well-formed")
			}
			r := &acceptRun{st: st, col: col, prop: prop, pc: PCfg{Kind: "synthetic", JSON: fmt.Sprintf("{\"W\":%d}", W)}, input: s.Want, stream: &s, W: W, decB: 0}
			ex, pts := engine.Explore(1, r.run)
			st.Points += pts
			st.Add("execs_default_buffer_large_window", ex)
			st.Nontrivial++
			st.States++
		}
	}}
}

func init() {
	decProps := map[string]bool{"C07": true}
	bfs := decShards("C07", decProps, []int{1})
	register(&Check{
		ID: "C07",
		Shards: func(tier string) []engine.Shard {
			return append(append([]engine.Shard{defaultBufferShard("C07")}, acceptShards("C07", tier)...), bfs(tier)...)
		},
		Replay: func(raw json.RawMessage, col *engine.Collector) error {
			var probe struct {
				Level string `json:"level"`
			}
			json.Unmarshal(raw, &probe)
			if probe.Level != "" {
				return replayDec("C07", decProps, raw, col)
			}
			return replayAccept("C07", raw, col)
		},
		Bounds: func(tier string) map[string]any {
			m := layerBounds(acceptLayers(tier))
			m["decoder_buffer_sizes"] = "for parser WindowSize W: BufferSize in {0 (default 2W), W+1, W+2, 2W-1, 2W, 3W, 3W+2}"
			m["choice_points"] = "Flush or no Flush before every block (deviation bound as listed per layer)"
			m["state_machine"] = decBounds([]int{1})(tier)
			return m
		},
		Rule:        "product: cases are (parser configuration, input, decoder BufferSize, flush placement); distinct_nontrivial counts distinct well-formed block streams per configuration; state machine: as C04 (Decoder level), every well-formed WriteBlock of the alphabet in every reached state must be accepted",
		Explanation: "every block stream emitted by a real parser (all seven kinds, BlockSize below/equal/above WindowSize, runs and periodic inputs giving MatchLen up to BlockSize) is fed to a Decoder with the same WindowSize and every listed BufferSize; every WriteBlock must return nil and after Flush the writer must hold the input. In addition the Decoder state machine BFS reports every refusal of a well-formed block. Refusals of a sequence with LitLen+MatchLen > BufferSize-WindowSize are the recorded open finding.",
		StatesNote:  "states = distinct block streams (product part) + distinct Decoder states (BFS part); transition = one Decoder API call",
		Assumptions: []string{"parser output that is not well-formed or does not expand to the input is left to C01/C02 (counted)", "inputs/configurations bounded as stated"},
	})
}
