// Package ref contains the reference models the real code is compared with.
// They are written to be obviously right, not fast, and share no code with
// the library under test.
package ref

import (
	"errors"
	"fmt"

	"github.com/ulikunitz/lz"
)

// Errors classifying malformed blocks.
var (
	ErrLitLen = errors.New("ref: LitLen exceeds remaining literals")
	ErrOffset = errors.New("ref: offset zero or beyond history")
)

// Expand appends the LZ77 expansion of blk to hist, byte by byte, and returns
// the extended slice. window limits the offsets (window <= 0: no limit). On a
// malformed sequence it returns the index of that sequence, the number of
// literal bytes consumed by the sequences before it, the expansion of those
// sequences only and an error.
func Expand(hist []byte, blk *lz.Block, window int) (out []byte, k, l int, err error) {
	out = hist
	lits := blk.Literals
	for k = 0; k < len(blk.Sequences); k++ {
		s := blk.Sequences[k]
		if int64(s.LitLen) > int64(len(lits)) {
			return out, k, l, fmt.Errorf("%w: seq %d LitLen %d > %d", ErrLitLen, k, s.LitLen, len(lits))
		}
		avail := int64(len(out)) + int64(s.LitLen)
		if window > 0 && avail > int64(window) {
			avail = int64(window)
		}
		if s.MatchLen > 0 && s.Offset == 0 || int64(s.Offset) > avail {
			return out, k, l, fmt.Errorf("%w: seq %d offset %d avail %d", ErrOffset, k, s.Offset, avail)
		}
		out = append(out, lits[:s.LitLen]...)
		lits = lits[s.LitLen:]
		l += int(s.LitLen)
		for i := uint32(0); i < s.MatchLen; i++ {
			out = append(out, out[len(out)-int(s.Offset)])
		}
	}
	out = append(out, lits...)
	l += len(lits)
	return out, k, l, nil
}

// BlockLen returns the number of bytes a block represents.
func BlockLen(blk *lz.Block) int64 {
	n := int64(len(blk.Literals))
	for _, s := range blk.Sequences {
		n += int64(s.MatchLen)
	}
	return n
}

// CloneBlock returns a deep copy.
func CloneBlock(blk *lz.Block) lz.Block {
	return lz.Block{
		Sequences: append([]lz.Seq(nil), blk.Sequences...),
		Literals:  append([]byte(nil), blk.Literals...),
	}
}

// LongestPrev returns the length of the longest common prefix of buf[i:end]
// with buf[f:end] over all f < i (overlap allowed), by brute force.
func LongestPrev(buf []byte, i, end int) int {
	best := 0
	for f := 0; f < i; f++ {
		m := 0
		for i+m < end && buf[f+m] == buf[i+m] {
			m++
		}
		if m > best {
			best = m
		}
	}
	return best
}
