package harness

import (
	"bytes"
	"encoding/hex"
	"encoding/json"
	"fmt"
	"math/bits"
	"sort"
	"sync/atomic"
	"time"

	"github.com/ulikunitz/lz/suffix"
	"verif/mc/engine"
	"verif/mc/ref"
)

// TextCase is a replayable suffix-array case.
type TextCase struct {
	Text    string `json:"text_hex"`
	Print   string `json:"text,omitempty"`
	Prefill int    `json:"prefill"`
	MinLen  int    `json:"min_len,omitempty"`
	MaxLen  int    `json:"max_len,omitempty"`
	Family  string `json:"family,omitempty"`
}

func prefill(sa []int32, variant int) {
	for i := range sa {
		switch variant {
		case 0:
			sa[i] = 0
		case 1:
			sa[i] = -1
		case 2:
			sa[i] = 0x7fffffff
		case 3:
			sa[i] = int32(len(sa) - 1 - i)
		}
	}
}

type textShardFn func(f func(family string, t []byte))

// checkSort runs the C09 oracle on one text.
func checkSort(t []byte, variant int, family string, st *engine.Stats, col *engine.Collector, prop string) {
	fail := func(sig, format string, a ...any) {
		full := prop + "|" + sig
		var cs any
		if !col.Seen(full) {
			cs = TextCase{Text: hex.EncodeToString(t), Print: printable(t), Prefill: variant, Family: family}
		}
		col.Report(engine.Violation{Property: prop, Sig: full, Msg: fmt.Sprintf(format, a...), Case: cs, Rank: int64(len(t))})
	}
	defer func() {
		if r := recover(); r != nil {
			fail("suffix|panic", "panic on text %q: %v", t, r)
		}
	}()
	engine.Progress.Add(1)
	orig := append([]byte(nil), t...)
	sa := make([]int32, len(t))
	prefill(sa, variant)
	if hangsSeen.Load() >= maxHangs {
		// every hanging sort leaves a spinning goroutine behind; after a few confirmed hangs the rest of the enumeration is skipped and the run is not exhaustive
		st.Add("texts_skipped_after_hangs", 1)
		if st.Extra["texts_skipped_after_hangs"] == 1 {
			st.CapsHit = append(st.CapsHit, fmt.Sprintf("more than %d suffix.Sort calls did not return; remaining texts of this shard skipped", maxHangs))
		}
		return
	}
	if !sortGuarded(t, sa) {
		fail("suffix.Sort|hang", "Sort of the %d-byte text %q (family %s) did not return within %v (it normally takes well under a millisecond): the sort loops forever", len(t), clip(t), family, sortTimeout)
		return
	}
	st.Execs++
	st.Transitions++
	if !bytes.Equal(orig, t) {
		fail("suffix.Sort|text-modified", "Sort modified the text %q -> %q", orig, t)
		copy(t, orig)
	}
	var want []int32
	if len(t) <= 64 {
		want = ref.SuffixArray(t)
		for i := range want {
			if sa[i] != want[i] {
				fail("suffix.Sort|wrong", "Sort(%q) (sa prefilled with variant %d) = %v, want %v", t, variant, sa, want)
				return
			}
		}
	} else if err := ref.CheckSA(t, sa); err != nil {
		fail("suffix.Sort|wrong", "Sort of %d-byte text (family %s): %v", len(t), family, err)
		return
	}
	// LCP in its three calling conventions
	wantLCP := ref.LCPNaive(t, sa)
	inv := make([]int32, len(sa))
	suffix.InvertSA(sa, inv)
	st.Transitions++
	for i, p := range sa {
		if inv[p] != int32(i) {
			fail("suffix.InvertSA|wrong", "InvertSA wrong at %d for text %q", i, t)
			return
		}
	}
	for mode := 0; mode < 3; mode++ {
		if mode == 2 && len(t) > 24 && variant != 0 {
			continue // the nil,nil convention re-sorts; do it for every short text and a quarter of the long ones
		}
		lcp := make([]int32, len(t))
		prefill(lcp, (variant+1)%4)
		switch mode {
		case 0:
			suffix.LCP(t, sa, inv, lcp)
		case 1:
			suffix.LCP(t, sa, nil, lcp)
		case 2:
			suffix.LCP(t, nil, nil, lcp)
		}
		st.Transitions++
		if !bytes.Equal(orig, t) {
			fail("suffix.LCP|text-modified", "LCP modified the text")
			copy(t, orig)
		}
		for i := range lcp {
			if lcp[i] != wantLCP[i] {
				fail("suffix.LCP|wrong", "LCP mode %d of %q: lcp[%d]=%d, want %d (sa %v)", mode, t, i, lcp[i], wantLCP[i], sa)
				return
			}
		}
	}
}

// sortTimeout bounds one suffix.Sort call on a text of at most a few thousand
// bytes. Such a call takes 0.5 ms; the limit is five orders of magnitude above
// that, so only a sort that does not terminate can exceed it.
const sortTimeout = 60 * time.Second

// after the first confirmed hang later suspects get a shorter (still 10^4 x normal) limit
const sortTimeoutLater = 10 * time.Second
const maxHangs = 8

var hangsSeen atomic.Int32

// sortGuarded runs suffix.Sort on private copies and reports whether it
// returned. A sort that hangs keeps its goroutine spinning until the process
// exits; panics are handed back to the caller.
func sortGuarded(t []byte, sa []int32) bool {
	tt := append([]byte(nil), t...)
	sa2 := append([]int32(nil), sa...)
	done := make(chan any, 1)
	go func() {
		defer func() { done <- recover() }()
		suffix.Sort(tt, sa2)
	}()
	select {
	case r := <-done:
		if r != nil {
			panic(r)
		}
		copy(t, tt)
		copy(sa, sa2)
		return true
	case <-time.After(map[bool]time.Duration{true: sortTimeout, false: sortTimeoutLater}[hangsSeen.Load() == 0]):
		hangsSeen.Add(1)
		return false
	}
}

// TandemSquares enumerates squares W+W (and cubes) of words built from two
// periodic units separated by single letters: W = (xz)^i . T1 ... Tk with
// tokens T in {y, z, yz, (yz)^4, (yz)^5}, for every assignment of the letters
// a,b,c to x,y,z. Repeats of this shape exhaust the rank-sort budget of
// DivSufSort while a tandem-repeat group is pending, which is the only way
// into its partial-copy path.
func TandemSquares(maxTokens int, cubes bool, f func(family string, t []byte)) {
	perms := [][3]byte{{'a', 'b', 'c'}, {'a', 'c', 'b'}, {'b', 'a', 'c'}, {'b', 'c', 'a'}, {'c', 'a', 'b'}, {'c', 'b', 'a'}}
	for _, pm := range perms {
		x, y, z := pm[0], pm[1], pm[2]
		yz := []byte{y, z}
		tokens := [][]byte{{y}, {z}, yz, bytes.Repeat(yz, 4), bytes.Repeat(yz, 5)}
		for i := 0; i <= 2; i++ {
			head := bytes.Repeat([]byte{x, z}, i)
			idx := make([]int, maxTokens)
			for k := 1; k <= maxTokens; k++ {
				for j := range idx[:k] {
					idx[j] = 0
				}
				for {
					w := append([]byte(nil), head...)
					for _, ti := range idx[:k] {
						w = append(w, tokens[ti]...)
					}
					f("tandem-square", append(append([]byte(nil), w...), w...))
					if cubes {
						f("tandem-cube", append(append(append([]byte(nil), w...), w...), w...))
					}
					j := k - 1
					for j >= 0 {
						idx[j]++
						if idx[j] < len(tokens) {
							break
						}
						idx[j] = 0
						j--
					}
					if j < 0 {
						break
					}
				}
			}
		}
	}
}

// diagSort runs suffix.VerifSort with other thresholds: a diagnostic, never a violation.
func diagSort(t []byte, st *engine.Stats) {
	defer func() {
		if r := recover(); r != nil {
			st.Add("diagnostic_threshold_failures", 1)
		}
	}()
	for _, th := range [][2]int{{4, 0}, {5, 3}, {8, 4}, {3, 2}} {
		sa := make([]int32, len(t))
		suffix.VerifSort(t, sa, th[0], th[1])
		st.Add("diagnostic_threshold_sorts", 1)
		if ref.CheckSA(t, sa) != nil {
			st.Add("diagnostic_threshold_failures", 1)
			if len(st.Samples) < 6 {
				st.Sample(map[string]any{"DIAGNOSTIC": "VerifSort with other thresholds is wrong (not a C09 violation: C09 speaks about suffix.Sort)", "text": string(t), "sizeThreshold": th[0], "trSizeThreshold": th[1]})
			}
		}
	}
}

type textSet struct {
	name     string
	alphabet []byte
	minLen   int
	maxLen   int
}

// textShards cuts the enumeration of all strings over the alphabets into shards
// by length and by the first symbols.
func textShards(prop string, sets []textSet, split int, body func(t []byte, idx int64, st *engine.Stats, col *engine.Collector)) []engine.Shard {
	var shards []engine.Shard
	for _, s := range sets {
		for n := s.minLen; n <= s.maxLen; n++ {
			s, n := s, n
			pre := 0
			// split long lengths by a prefix so that shards stay small
			for x := 1; n-pre > split && pre < n; pre++ {
				x *= len(s.alphabet)
			}
			var prefixes [][]byte
			Strings(s.alphabet, pre, pre, func(p []byte) { prefixes = append(prefixes, append([]byte(nil), p...)) })
			for _, p := range prefixes {
				p := p
				shards = append(shards, engine.Shard{
					Name: fmt.Sprintf("%s/%s/len%d/prefix%q", prop, s.name, n, p),
					Run: func(st *engine.Stats, col *engine.Collector) {
						idx := int64(0)
						buf := make([]byte, n)
						Strings(s.alphabet, n-len(p), n-len(p), func(rest []byte) {
							copy(buf, p)
							copy(buf[len(p):], rest)
							body(buf, idx, st, col)
							idx++
						})
					},
				})
			}
		}
	}
	return shards
}

func c09Sets(tier string) ([]textSet, []int, []int) {
	four := []byte{0x00, 0x7f, 0x80, 0xff}
	if tier == "thorough" {
		return []textSet{
				{"binary", []byte("ab"), 0, 20}, {"ternary", []byte("abc"), 1, 12}, {"bytes4", four, 1, 9},
			}, []int{65, 100, 129, 200, 255, 256, 257, 300, 400, 511, 600, 777, 1000, 1500, 2000},
			[]int{}
	}
	return []textSet{
			{"binary", []byte("ab"), 0, 16}, {"ternary", []byte("abc"), 1, 10}, {"bytes4", four, 1, 7},
		}, []int{65, 129, 200, 257, 400, 600},
		[]int{}
}

// structuredTexts enumerates the structured family for C09.
func structuredTexts(lengths []int, f func(family string, t []byte)) {
	for _, n := range lengths {
		Structured(n, 'a', 'b', 'c', func(name string, s []byte) { f(fmt.Sprintf("%s(%d)", name, n), s) })
		Structured(n, 0x00, 0xff, 0x80, func(name string, s []byte) { f(fmt.Sprintf("%s-bytes(%d)", name, n), s) })
	}
	for k := 1; k <= 10; k++ {
		f(fmt.Sprintf("deBruijn(2,%d)", k), DeBruijn([]byte("ab"), k))
	}
	for k := 1; k <= 6; k++ {
		f(fmt.Sprintf("deBruijn(3,%d)", k), DeBruijn([]byte("abc"), k))
	}
	for k := 1; k <= 4; k++ {
		f(fmt.Sprintf("deBruijn(4,%d)", k), DeBruijn([]byte{0, 0x7f, 0x80, 0xff}, k))
	}
	// all 256 byte values, ascending, descending and twice
	all := make([]byte, 256)
	for i := range all {
		all[i] = byte(i)
	}
	f("all-bytes-ascending", append([]byte(nil), all...))
	desc := make([]byte, 256)
	for i := range desc {
		desc[i] = byte(255 - i)
	}
	f("all-bytes-descending", desc)
	f("all-bytes-twice", append(append([]byte(nil), all...), all...))
	f("all-bytes-desc-asc", append(append([]byte(nil), desc...), all...))
}

func init() {
	register(&Check{
		ID: "C09",
		Shards: func(tier string) []engine.Shard {
			sets, lengths, _ := c09Sets(tier)
			shards := textShards("C09", sets, 9, func(t []byte, idx int64, st *engine.Stats, col *engine.Collector) {
				if len(t) <= 8 {
					for v := 0; v < 4; v++ {
						checkSort(t, v, "exhaustive", st, col, "C09")
					}
				} else {
					checkSort(t, int(idx%4), "exhaustive", st, col, "C09")
				}
				st.Nontrivial++
				st.States++
				if len(t) >= 4 && len(t) <= 12 && idx%8 == 0 {
					diagSort(t, st)
				}
				if len(st.Samples) < 2 && len(t) > 5 {
					st.Sample(map[string]any{"text": string(t), "oracle": "naive sort + naive lcp"})
				}
			})
			for _, n := range lengths {
				n := n
				shards = append(shards, engine.Shard{
					Name: fmt.Sprintf("C09/structured/n%d", n),
					Run: func(st *engine.Stats, col *engine.Collector) {
						i := 0
						structuredTexts([]int{n}, func(fam string, t []byte) {
							if len(t) < 3 && n != 65 {
								return
							}
							checkSort(t, i%4, fam, st, col, "C09")
							st.Nontrivial++
							st.States++
							i++
							st.Add("structured_texts", 1)
							st.Max("max_text_len", int64(len(t)))
						})
					},
				})
			}
			// a few low-entropy texts of several thousand bytes (rank groups of more than 512 B* suffixes: median-of-nine
			// pivots, heap sort and depth limits of the rank sort)
			for _, n := range map[string][]int{"quick": {4099, 10000}, "thorough": {4099, 10000, 30011, 100003}}[tier] {
				n := n
				shards = append(shards, engine.Shard{
					Name: fmt.Sprintf("C09/long-low-entropy/n%d", n),
					Run: func(st *engine.Stats, col *engine.Collector) {
						mk := func(u string) []byte {
							t := make([]byte, n)
							for i := range t {
								t[i] = u[i%len(u)]
							}
							return t
						}
						texts := map[string][]byte{}
						if n == 4099 {
							// many B* substrings with a long common prefix in one bucket: (a^k b)^j and (a^k b a^l c)^j
							for _, k := range []int{40, 41, 47, 64} {
								for _, j := range []int{8, 9, 10, 16, 17} {
									u := append(bytes.Repeat([]byte("a"), k), 'b')
									texts[fmt.Sprintf("(a^%d b)^%d", k, j)] = bytes.Repeat(u, j)
									w := append(append(append([]byte(nil), u...), bytes.Repeat([]byte("a"), k-1)...), 'c')
									texts[fmt.Sprintf("(a^%d b a^%d c)^%d", k, k-1, j)] = bytes.Repeat(w, j)
								}
							}
						}
						if n == 4099 {
							// runs of two letters with VARYING run lengths of at least 40: all B* substrings "ab a^k ab" of one
							// bucket agree in their first 40 bytes, the depth limit of the substring introsort is used up
							// before they differ (heap sort of sections of even and odd length)
							for _, mod := range []int{30, 17, 5} {
								for runs := 10; runs <= 120; runs++ {
									var t []byte
									x := uint32(runs) // linear congruential sequence seeded by the number of runs: a closed formula, not a sample
									for i := 0; i < runs; i++ {
										x = x*1664525 + 1013904223
										t = append(t, bytes.Repeat([]byte("a"), 40+int(x>>16)%mod)...)
										t = append(t, 'b')
									}
									texts[fmt.Sprintf("runs a^(40 + lcg mod %d) b, %03d runs", mod, runs)] = t
								}
							}
						}
						for k, v := range map[string][]byte{"(abb)^k": mk("abb"), "(abbab)^k": mk("abbab"), "(ab)^k": mk("ab"), "a^n": mk("a"), "(aab)^k a-tail": append(mk("aab")[:n-1], 'a'),
							"thue-morse": ThueMorse(n, 'a', 'b'), "fibonacci": Fibonacci(n, 'a', 'b'), "period-doubling": PeriodDoubling(n, 'a', 'b'),
							"fibonacci-bytes": Fibonacci(n, 0xff, 0x00), "thue-morse-bytes": ThueMorse(n, 0x80, 0x7f)} {
							texts[k] = v
						}
						names := make([]string, 0, len(texts))
						for k := range texts {
							names = append(names, k)
						}
						sort.Strings(names)
						for i, k := range names {
							checkSort(texts[k], i%4, fmt.Sprintf("%s(%d)", k, n), st, col, "C09")
							st.Nontrivial++
							st.States++
							st.Add("long_low_entropy_texts", 1)
							st.Max("max_text_len", int64(n))
						}
					},
				})
			}
			// squares and cubes of two-unit periodic words, cut into shards by the letter assignment and head
			maxTok, cubes := 5, false
			if tier == "thorough" {
				maxTok, cubes = 6, true
			}
			for part := 0; part < 18; part++ {
				part := part
				shards = append(shards, engine.Shard{
					Name: fmt.Sprintf("C09/tandem-squares/part%d", part),
					Run: func(st *engine.Stats, col *engine.Collector) {
						i := 0
						TandemSquares(maxTok, cubes, func(fam string, t []byte) {
							i++
							if (i/977)%18 != part { // blocks of 977 consecutive texts are dealt round robin to the 18 shards
								return
							}
							checkSort(t, i%4, fam, st, col, "C09")
							st.Nontrivial++
							st.States++
							st.Add("tandem_texts", 1)
							st.Max("max_text_len", int64(len(t)))
						})
					},
				})
			}
			return shards
		},
		Replay: func(raw json.RawMessage, col *engine.Collector) error {
			var tc TextCase
			if err := json.Unmarshal(raw, &tc); err != nil {
				return err
			}
			t, err := hex.DecodeString(tc.Text)
			if err != nil {
				return err
			}
			var st engine.Stats
			checkSort(t, tc.Prefill, tc.Family, &st, col, "C09")
			return nil
		},
		Bounds: func(tier string) map[string]any {
			sets, lengths, _ := c09Sets(tier)
			var ss []string
			for _, s := range sets {
				ss = append(ss, fmt.Sprintf("all strings over %q of length %d..%d", s.alphabet, s.minLen, s.maxLen))
			}
			return map[string]any{"exhaustive_sets": ss, "structured_family_lengths": lengths,
				"structured_family":    "periodic words for every unit of length 1..3 over 3 letters with 0 or 1 perturbed position in {0,mid,last}, Fibonacci, Thue-Morse, period-doubling prefixes (two alphabets: abc and 00/ff/80), de Bruijn B(2,1..10) B(3,1..6) B(4,1..4), all 256 byte values ascending/descending/twice",
				"sa_prefill":           "zeros, -1, 0x7fffffff, reversed identity (all four for texts <= 8 bytes, rotating by index above)",
				"lcp_call_modes":       "(sa,sainv), (sa,nil), (nil,nil)",
				"threshold_diagnostic": "suffix.VerifSort with (sizeThreshold,trSizeThreshold) in {(4,0),(5,3),(8,4),(3,2)} on every 8th text of length 4..12: failures are reported as DIAGNOSTIC in the samples and counted, never as VIOLATION"}
		},
		Rule:        "every text of the exhaustive sets and the structured family is one case; all are distinct by construction; non-trivial = every text (each exercises Sort, InvertSA and the three LCP conventions)",
		Explanation: "suffix.Sort / LCP / InvertSA against naive sorting and naive prefix comparison (linear checker above 64 bytes)",
		StatesNote:  "there is no state machine here: states counts the distinct input texts (each is the initial state of one run of the sort), distinct by construction; transitions = calls of Sort/InvertSA/LCP on the real code; the deciding step is exhaustive enumeration of the input space up to the stated lengths",
		Assumptions: []string{"texts longer than the bounds and alphabets other than those listed are not explored; ssort.heapSort and trsort.trPartialCopy need adversarial inputs of hundreds of bytes and may be unreached (see coverage note in DESIGN.md)"},
	})
}

// ---- C10 ----

type segCallback struct {
	m    int
	mask uint64
	n    int
	dup  bool
}

// checkSegments runs the C10 oracle for one text and one (minLen,maxLen).
func checkSegments(t []byte, sa, lcp []int32, pair [][]int8, minLen, maxLen int, st *engine.Stats, col *engine.Collector) {
	fail := func(sig, format string, a ...any) {
		full := "C10|" + sig
		var cs any
		if !col.Seen(full) {
			cs = TextCase{Text: hex.EncodeToString(t), Print: printable(t), MinLen: minLen, MaxLen: maxLen}
		}
		col.Report(engine.Violation{Property: "C10", Sig: full, Msg: fmt.Sprintf(format, a...), Case: cs, Rank: int64(len(t))<<16 + int64(minLen)<<8 + int64(maxLen)})
	}
	defer func() {
		if r := recover(); r != nil {
			fail("suffix.Segments|panic", "Segments(text %q, minLen %d, maxLen %d) panicked: %v", t, minLen, maxLen, r)
		}
	}()
	var cbs []segCallback
	saCopy := append([]int32(nil), sa...)
	// Segments documents that it modifies sa; the lcp table is an input that a caller may use again, so all
	// calls for one text share it (checkSegmentsText passes a private copy that lives as long as the text)
	bad := false
	suffix.Segments(saCopy, lcp, minLen, maxLen, func(m int, seg []int32) {
		cb := segCallback{m: m, n: len(seg)}
		for _, p := range seg {
			if p < 0 || int(p) >= len(t) {
				bad = true
				fail("suffix.Segments|member-range", "callback m=%d has member %d outside the text %q", m, p, t)
				return
			}
			if cb.mask&(1<<uint(p)) != 0 {
				cb.dup = true
			}
			cb.mask |= 1 << uint(p)
		}
		cbs = append(cbs, cb)
	})
	st.Execs++
	st.Transitions += int64(len(cbs)) + 1
	if bad {
		return
	}
	// (1) range, distinct members, shared prefix
	for _, cb := range cbs {
		if cb.m < minLen || cb.m > maxLen {
			fail("suffix.Segments|m-range", "text %q minLen %d maxLen %d: callback with m=%d", t, minLen, maxLen, cb.m)
			return
		}
		if cb.dup {
			fail("suffix.Segments|duplicate-member", "text %q: callback m=%d lists a suffix twice", t, cb.m)
			return
		}
		first := -1
		for p := 0; p < len(t); p++ {
			if cb.mask&(1<<uint(p)) == 0 {
				continue
			}
			if len(t)-p < cb.m {
				fail("suffix.Segments|short-member", "text %q: callback m=%d contains suffix %d which has only %d bytes", t, cb.m, p, len(t)-p)
				return
			}
			if first < 0 {
				first = p
			} else if int(pair[first][p]) < cb.m {
				fail("suffix.Segments|not-shared", "text %q: callback m=%d contains suffixes %d and %d with common prefix %d", t, cb.m, first, p, pair[first][p])
				return
			}
		}
	}
	// (2) every pair with common prefix c >= minLen is in exactly one callback with m = min(c,maxLen)
	for i := 0; i < len(t); i++ {
		for j := i + 1; j < len(t); j++ {
			c := int(pair[i][j])
			if c < minLen {
				continue
			}
			m := min(c, maxLen)
			cnt := 0
			both := uint64(1)<<uint(i) | uint64(1)<<uint(j)
			for _, cb := range cbs {
				if cb.m == m && cb.mask&both == both {
					cnt++
				}
			}
			if cnt != 1 {
				fail(fmt.Sprintf("suffix.Segments|pair-count-%s", map[bool]string{true: "missing", false: "multiple"}[cnt == 0]),
					"text %q minLen %d maxLen %d: suffixes %d and %d share %d bytes; %d callbacks with m=%d contain both (want exactly 1); callbacks %s", t, minLen, maxLen, i, j, c, cnt, m, fmtCallbacks(cbs))
				return
			}
		}
	}
	// (3) longer groups before the groups that contain them
	for a := range cbs {
		for b := range cbs {
			if cbs[a].m > cbs[b].m && cbs[a].mask&^cbs[b].mask == 0 && a > b {
				fail("suffix.Segments|order", "text %q minLen %d maxLen %d: group m=%d %s is reported after the group m=%d %s that contains it", t, minLen, maxLen, cbs[a].m, maskStr(cbs[a].mask), cbs[b].m, maskStr(cbs[b].mask))
				return
			}
		}
	}
}

func maskStr(m uint64) string {
	var s []int
	for m != 0 {
		i := bits.TrailingZeros64(m)
		s = append(s, i)
		m &^= 1 << uint(i)
	}
	return fmt.Sprint(s)
}

func fmtCallbacks(cbs []segCallback) string {
	s := ""
	for _, cb := range cbs {
		s += fmt.Sprintf("(m=%d %s)", cb.m, maskStr(cb.mask))
	}
	return s
}

// checkSegmentsLong is the oracle for texts of more than 64 bytes: the expected callbacks are computed directly -
// for m < maxLen the classes of suffixes sharing exactly m bytes (LCP intervals of value m), for m = maxLen the
// classes sharing at least maxLen bytes - and compared with the callbacks as multisets; nested groups must come
// inner first.
func checkSegmentsLong(t []byte, sa, lcp []int32, minLen, maxLen int, st *engine.Stats, col *engine.Collector) {
	engine.Progress.Add(1)
	fail := func(sig, format string, a ...any) {
		full := "C10|" + sig
		var cs any
		if !col.Seen(full) {
			cs = TextCase{Text: hex.EncodeToString(t), Print: printable(t), MinLen: minLen, MaxLen: maxLen, Family: "long"}
		}
		col.Report(engine.Violation{Property: "C10", Sig: full, Msg: fmt.Sprintf(format, a...), Case: cs, Rank: int64(len(t))<<16 + int64(minLen)<<8 + int64(maxLen)})
	}
	defer func() {
		if r := recover(); r != nil {
			fail("suffix.Segments|panic", "Segments(text of %d bytes %q, minLen %d, maxLen %d) panicked: %v", len(t), clip(t), minLen, maxLen, r)
		}
	}()
	type cbk struct {
		m   int
		mem []int32
		set map[int32]bool
	}
	var got []cbk
	saCopy := append([]int32(nil), sa...)
	suffix.Segments(saCopy, lcp, minLen, maxLen, func(m int, seg []int32) {
		c := cbk{m: m, mem: append([]int32(nil), seg...), set: map[int32]bool{}}
		sort.Slice(c.mem, func(i, j int) bool { return c.mem[i] < c.mem[j] })
		for _, p := range c.mem {
			c.set[p] = true
		}
		got = append(got, c)
	})
	st.Execs++
	st.Transitions += int64(len(got)) + 1
	n := len(t)
	// (1) every callback: m in range, distinct members inside the text, all sharing their first m bytes
	for i, g := range got {
		if g.m < minLen || g.m > maxLen {
			fail("suffix.Segments|m-range", "text of %d bytes %q minLen %d maxLen %d: callback with m=%d", n, clip(t), minLen, maxLen, g.m)
			return
		}
		if len(g.set) != len(g.mem) {
			fail("suffix.Segments|duplicate-member", "text of %d bytes %q: callback %d (m=%d) lists a suffix twice", n, clip(t), i, g.m)
			return
		}
		for _, p := range g.mem {
			if p < 0 || int(p)+g.m > n {
				fail("suffix.Segments|short-member", "text of %d bytes %q: callback m=%d contains suffix %d", n, clip(t), g.m, p)
				return
			}
			if !bytes.Equal(t[int(p):int(p)+g.m], t[int(g.mem[0]):int(g.mem[0])+g.m]) {
				fail("suffix.Segments|not-shared", "text of %d bytes %q: callback m=%d contains suffixes %d and %d that do not share %d bytes", n, clip(t), g.m, g.mem[0], p, g.m)
				return
			}
		}
	}
	// (2) every two suffixes with common prefix c >= minLen are together in exactly one callback with m = min(c, maxLen).
	// It suffices to test, for every class of suffixes sharing m bytes, one suffix per continuation byte (pairs with
	// c == m) and, for m == maxLen, neighbouring members of the class.
	count := func(m int, a, b int32) int {
		k := 0
		for _, g := range got {
			if g.m == m && g.set[a] && g.set[b] {
				k++
			}
		}
		return k
	}
	for m := minLen; m <= maxLen && m <= n; m++ {
		classes := map[string][]int32{}
		for p := 0; p < n && p+m <= n; p++ {
			classes[string(t[p:p+m])] = append(classes[string(t[p:p+m])], int32(p))
		}
		for _, mem := range classes {
			if len(mem) < 2 {
				continue
			}
			var reps []int32
			if m == maxLen {
				reps = mem // all pairs have min(c, maxLen) == m: test neighbours and the two ends
			} else {
				seenNext := map[int]bool{}
				for _, p := range mem {
					nx := -1
					if int(p)+m < n {
						nx = int(t[int(p)+m])
					}
					if !seenNext[nx] || nx == -1 {
						seenNext[nx] = true
						reps = append(reps, p)
					}
				}
			}
			for k := 0; k+1 <= len(reps); k++ {
				a, b := reps[k], reps[(k+1)%len(reps)]
				if a == b || (len(reps) == 2 && k == 1) {
					continue
				}
				if c := count(m, a, b); c != 1 {
					sig := "suffix.Segments|pair-count-missing"
					if c > 1 {
						sig = "suffix.Segments|pair-count-duplicate"
					}
					fail(sig, "text of %d bytes %q minLen %d maxLen %d: suffixes %d and %d share %s%d bytes; %d callbacks with m=%d contain both (want exactly 1; %d callbacks received)", n, clip(t), minLen, maxLen, a, b, map[bool]string{true: "at least ", false: "exactly "}[m == maxLen], m, c, m, len(got))
					return
				}
			}
		}
	}
	// (3) a group with a longer common prefix is reported before the groups that contain it
	for i := range got {
		for j := i + 1; j < len(got); j++ {
			if got[j].m > got[i].m && len(got[j].mem) <= len(got[i].mem) && got[i].set[got[j].mem[0]] && got[i].set[got[j].mem[len(got[j].mem)-1]] {
				fail("suffix.Segments|order", "text of %d bytes %q: the group with m=%d (%d members) is reported before the group with m=%d (%d members) that it contains", n, clip(t), got[i].m, len(got[i].mem), got[j].m, len(got[j].mem))
				return
			}
		}
	}
}

func clipS(s string) string {
	if len(s) > 80 {
		return s[:80] + "...]"
	}
	return s
}

// longSegmentTexts: runs and periodic words longer than 64 bytes (more than 64 nested LCP intervals are open at
// once at the end of a run) and a few (minLen, maxLen) pairs around the thresholds 63/64/65.
func longSegmentTexts(f func(t []byte)) {
	for _, n := range []int{66, 100, 130} {
		f(bytes.Repeat([]byte("a"), n))
		f(append(bytes.Repeat([]byte("a"), n), 'b'))
		f(append([]byte("b"), bytes.Repeat([]byte("a"), n)...))
		f(append(bytes.Repeat([]byte("b"), n), 'a'))
		f(bytes.Repeat([]byte("ab"), n/2))
		f(Fibonacci(n, 'a', 'b'))
		f(append(bytes.Repeat([]byte("a"), n/2), bytes.Repeat([]byte("ab"), n/4)...))
	}
}

func checkSegmentsLongText(t []byte, st *engine.Stats, col *engine.Collector) {
	sa := ref.SuffixArray(t)
	lcp := ref.LCPNaive(t, sa)
	n := len(t)
	for _, mm := range [][2]int{{0, n + 1}, {1, n}, {2, 273}, {2, 3}, {2, 64}, {63, 64}, {64, 65}, {3, 40}, {60, 70}, {0, 0}, {5, 5}, {64, 64}, {2, 63}, {2, 273}} {
		checkSegmentsLong(t, sa, lcp, mm[0], mm[1], st, col)
	}
	st.Nontrivial++
	st.States++
}

func checkSegmentsText(t []byte, st *engine.Stats, col *engine.Collector) {
	if len(t) > 64 {
		checkSegmentsLongText(t, st, col)
		return
	}
	engine.Progress.Add(1)
	n := len(t)
	sa := ref.SuffixArray(t)
	lcp := ref.LCPNaive(t, sa)
	pair := make([][]int8, n)
	for i := range pair {
		pair[i] = make([]int8, n)
		for j := range pair[i] {
			pair[i][j] = int8(ref.CommonPrefix(t, i, j))
		}
	}
	for minLen := 0; minLen <= n+1; minLen++ {
		for maxLen := minLen; maxLen <= n+1; maxLen++ {
			checkSegments(t, sa, lcp, pair, minLen, maxLen, st, col)
		}
	}
	st.Nontrivial++
	st.States++
}

func c10Sets(tier string) []textSet {
	if tier == "thorough" {
		return []textSet{{"binary", []byte("ab"), 0, 18}, {"ternary", []byte("abc"), 1, 11}, {"bytes4", []byte{0, 0x7f, 0x80, 0xff}, 1, 9}}
	}
	return []textSet{{"binary", []byte("ab"), 0, 15}, {"ternary", []byte("abc"), 1, 9}, {"bytes4", []byte{0, 0x7f, 0x80, 0xff}, 1, 7}}
}

func init() {
	register(&Check{
		ID: "C10",
		Shards: func(tier string) []engine.Shard {
			shards := textShards("C10", c10Sets(tier), 7, func(t []byte, idx int64, st *engine.Stats, col *engine.Collector) {
				checkSegmentsText(t, st, col)
				if len(st.Samples) < 2 && len(t) > 5 {
					st.Sample(map[string]any{"text": string(t), "all (minLen,maxLen) with": "0 <= minLen <= maxLen <= len+1"})
				}
			})
			return append(shards, engine.Shard{Name: "C10/long-runs", Run: func(st *engine.Stats, col *engine.Collector) {
				longSegmentTexts(func(t []byte) { checkSegmentsLongText(t, st, col) })
				st.Sample(map[string]any{"text": "a^130 b", "(minLen,maxLen)": "(0,n+1) (1,n) (2,273) (2,3) (2,64) (63,64) (64,65) (3,40) (60,70) (0,0) (5,5) (64,64) (2,63) (2,273), all on one lcp table"})
			}})
		},
		Replay: func(raw json.RawMessage, col *engine.Collector) error {
			var tc TextCase
			if err := json.Unmarshal(raw, &tc); err != nil {
				return err
			}
			t, err := hex.DecodeString(tc.Text)
			if err != nil {
				return err
			}
			var st engine.Stats
			checkSegmentsText(t, &st, col)
			return nil
		},
		Bounds: func(tier string) map[string]any {
			var ss []string
			for _, s := range c10Sets(tier) {
				ss = append(ss, fmt.Sprintf("all strings over %q of length %d..%d", s.alphabet, s.minLen, s.maxLen))
			}
			return map[string]any{"texts": ss, "long_texts": "a^n, a^n b, b a^n, b^n a, (ab)^(n/2), Fibonacci(n), a^(n/2)(ab)^(n/4) for n in {66,100,130} with 14 (minLen,maxLen) pairs around 63/64/65 applied to one shared lcp table", "min_max": "every (minLen,maxLen) with 0 <= minLen <= maxLen <= len(text)+1 (shared lcp table, increasing maxLen)", "sa_lcp_source": "naive reference suffix array and LCP table (independent of suffix.Sort/LCP)"}
		},
		Rule:        "cases are (text, minLen, maxLen) triples, all distinct by construction; evaluations counts triples, distinct_nontrivial counts texts",
		Explanation: "suffix.Segments callbacks against brute-force prefix groups: range/sharing, exactly-one coverage of every pair, inner-before-outer order, no panic",
		StatesNote:  "no state machine: states counts the distinct texts (each explored with every (minLen,maxLen)); transitions = callbacks received + Segments calls",
		Assumptions: []string{"texts up to the stated lengths; sa/lcp inputs are always those of a real text"},
	})
}
