//go:build verif

package suffix

// Degraded replacement of suffix/export_verif.go (see export_verif_min.go in
// package lz): the thresholds are ignored.
func VerifSort(t []byte, sa []int32, sizeThreshold, trSizeThreshold int) { Sort(t, sa) }

// VerifYield: see suffix/export_verif.go.
var VerifYield func()
