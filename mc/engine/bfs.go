package engine

import "hash/maphash"

// Key is a 128-bit compacted canonical state key (two independent 64-bit
// hashes of the canonical byte form; the probability that two of 10^7 states
// collide is below 10^-24, which we accept instead of storing full keys).
type Key [2]uint64

var seedA, seedB = maphash.MakeSeed(), maphash.MakeSeed()

// MakeKey hashes a canonical byte form.
func MakeKey(b []byte) Key { return Key{maphash.Bytes(seedA, b), maphash.Bytes(seedB, b)} }

// Node is a BFS node: a state plus the operation indexes of the shortest path
// that reached it.
type Node[S any] struct {
	State S
	Path  []uint16
}

// BFSResult reports what a search covered.
type BFSResult struct {
	States      int64
	Transitions int64
	Depth       int   // deepest level completely expanded
	CapHit      bool  // the state cap stopped the search
	Frontier    int64 // states of the last level that were not expanded (depth bound)
}

// BFS runs an explicit-state breadth-first search. expand is called once for
// every distinct state up to maxDepth-1 and must call emit for each successor
// (after applying one operation of the alphabet to a clone of the state). key
// returns the canonical key used for de-duplication. Operations are identified
// by their index in the (state dependent, deterministic) alphabet, so that a
// path can be replayed.
func BFS[S any](init S, maxDepth int, stateCap int64, key func(*S) Key,
	expand func(n *Node[S], emit func(next S, op uint16))) BFSResult {
	var res BFSResult
	seen := map[Key]struct{}{}
	seen[key(&init)] = struct{}{}
	res.States = 1
	level := []*Node[S]{{State: init}}
	for depth := 0; depth < maxDepth && len(level) > 0; depth++ {
		var next []*Node[S]
		for _, n := range level {
			if res.CapHit {
				break
			}
			expand(n, func(s S, op uint16) {
				res.Transitions++
				k := key(&s)
				if _, ok := seen[k]; ok {
					return
				}
				if res.States >= stateCap {
					res.CapHit = true
					return
				}
				seen[k] = struct{}{}
				res.States++
				p := make([]uint16, len(n.Path)+1)
				copy(p, n.Path)
				p[len(n.Path)] = op
				next = append(next, &Node[S]{State: s, Path: p})
			})
		}
		if res.CapHit {
			break
		}
		res.Depth = depth + 1
		level = next
	}
	res.Frontier = int64(len(level))
	return res
}
