package harness

import (
	"encoding/binary"
	"encoding/json"
	"fmt"
	"sort"
	"strings"

	"github.com/ulikunitz/lz"
	"verif/mc/engine"
)

// ---- bitset component (used by GSAP as the set of SA ranks already passed) ----

// BSNode is a bitset state with its model.
type BSNode struct {
	B     *lz.VerifBitset
	Model []int // sorted members
}

var bsDomain = []int{0, 1, 63, 64, 65, 127, 128, 130, 191, 192, 400}

// BSCase is the replayable description of a bitset violation.
type BSCase struct {
	Component string   `json:"component"`
	Path      []uint16 `json:"path"`
	Ops       []string `json:"ops"`
}

func bsOpName(i int) string {
	if i == len(bsDomain) {
		return "clear()"
	}
	return fmt.Sprintf("insert(%d)", bsDomain[i])
}

// applyBSOp applies operation i: insert(domain[i]) or clear. GSAP always asks
// for the neighbours of the rank it has just inserted, so these are the probes.
func applyBSOp(n *BSNode, i int) (next BSNode, v verdicts) {
	next = BSNode{B: n.B.Clone(), Model: append([]int(nil), n.Model...)}
	defer func() {
		if r := recover(); r != nil {
			v.add("C12", "bitset|panic", "%s panicked: %v", bsOpName(i), r)
		}
	}()
	if i == len(bsDomain) {
		next.B.Clear()
		next.Model = next.Model[:0]
		return
	}
	x := bsDomain[i]
	next.B.Insert(x)
	k := sort.SearchInts(next.Model, x)
	if k == len(next.Model) || next.Model[k] != x {
		next.Model = append(next.Model, 0)
		copy(next.Model[k+1:], next.Model[k:])
		next.Model[k] = x
	}
	wantB, okB := -1, false
	if k > 0 {
		wantB, okB = next.Model[k-1], true
	}
	wantA, okA := -1, false
	if k+1 < len(next.Model) {
		wantA, okA = next.Model[k+1], true
	}
	gb, gob := next.B.MemberBefore(x)
	ga, goa := next.B.MemberAfter(x)
	if gob != okB || (okB && gb != wantB) {
		v.add("C12", "bitset|memberBefore", "after %s memberBefore(%d) = %d,%v; members are %v", bsOpName(i), x, gb, gob, next.Model)
	}
	if goa != okA || (okA && ga != wantA) {
		v.add("C12", "bitset|memberAfter", "after %s memberAfter(%d) = %d,%v; members are %v", bsOpName(i), x, ga, goa, next.Model)
	}
	return
}

func bsKey(n *BSNode) engine.Key {
	off, ln, cp := n.B.Shape()
	var w []byte
	w = binary.LittleEndian.AppendUint32(w, uint32(off))
	w = binary.LittleEndian.AppendUint32(w, uint32(ln))
	w = binary.LittleEndian.AppendUint32(w, uint32(cp))
	for _, x := range n.B.Words() {
		w = binary.LittleEndian.AppendUint64(w, x)
	}
	for _, m := range n.Model {
		w = binary.LittleEndian.AppendUint32(w, uint32(m))
	}
	return engine.MakeKey(w)
}

func replayBSPath(path []uint16) (verdicts, []string, error) {
	n := BSNode{B: &lz.VerifBitset{}}
	var ops []string
	var last verdicts
	for _, idx := range path {
		if int(idx) > len(bsDomain) {
			return nil, ops, fmt.Errorf("replay divergence")
		}
		ops = append(ops, bsOpName(int(idx)))
		next, v := applyBSOp(&n, int(idx))
		last = v
		n = next
	}
	return last, ops, nil
}

func runBitsetBFS(prop string, depth int, st *engine.Stats, col *engine.Collector) {
	init := BSNode{B: &lz.VerifBitset{}}
	res := engine.BFS(init, depth, 5_000_000, bsKey, func(n *engine.Node[BSNode], emit func(BSNode, uint16)) {
		for i := 0; i <= len(bsDomain); i++ {
			next, v := applyBSOp(&n.State, i)
			st.Transitions++
			bad := false
			for _, x := range v {
				bad = true
				sig := prop + "|" + x.Sig
				path := append(append([]uint16(nil), n.Path...), uint16(i))
				var cs any
				if !col.Seen(sig) {
					_, ops, _ := replayBSPath(path)
					cs = BSCase{Component: "bitset", Path: path, Ops: ops}
				}
				col.Report(engine.Violation{Property: prop, Sig: sig, Msg: x.Msg, Case: cs, Rank: int64(len(path))})
			}
			if bad {
				st.Pruned++
				continue
			}
			emit(next, uint16(i))
		}
	})
	st.States += res.States
	st.Execs += res.States
	st.Add("bitset_states", res.States)
	st.Add("bitset_depth", int64(res.Depth))
	if res.CapHit {
		st.CapsHit = append(st.CapsHit, "bitset bfs state cap hit")
	}
	st.Sample(map[string]any{"engine": "bfs", "component": "bitset", "states": res.States, "transitions": res.Transitions, "depth": res.Depth, "domain": bsDomain})
}

func replayBS(prop string, raw json.RawMessage, col *engine.Collector) error {
	var bc BSCase
	if err := json.Unmarshal(raw, &bc); err != nil {
		return err
	}
	v, ops, err := replayBSPath(bc.Path)
	if err != nil {
		return err
	}
	fmt.Printf("replayed bitset: %s\n", strings.Join(ops, "; "))
	for _, x := range v {
		col.Report(engine.Violation{Property: prop, Sig: prop + "|" + x.Sig, Msg: x.Msg, Case: bc})
	}
	return nil
}

// ---- GSAP layers ----

func gsapLayers(tier string) []Layer {
	m := Menu{WriteChunks: true, ReadFrom: true, NTL: true, ParseNil: false, StopEarly: true, ShrinkDev: true, Reset: true}
	k := []string{"GSAP"}
	if tier == "thorough" {
		return []Layer{
			{Name: "gsap-longrepeat", Kinds: k, Geos: []lz.BufConfig{{BufferSize: 2048, WindowSize: 2048, BlockSize: 2048}, {BufferSize: 2048, WindowSize: 2048, BlockSize: 700}, {BufferSize: 1000, WindowSize: 2048, BlockSize: 300}}, Level: 0, Inputs: LongRepeats(), Menu: m, Bound: 1, CfgPerShard: 1},
			{Name: "gsap-b0", Kinds: k, BufSizes: allQuickBuf, Level: 1, Inputs: Union(Binary(10), Ternary(7), ZeroA(7)), Menu: m, Bound: 0},
			{Name: "gsap-b1", Kinds: k, BufSizes: []int{2, 3, 5, 8}, Level: 1, Inputs: Union(Binary(8), Ternary(5)), Menu: m, Bound: 1},
			{Name: "gsap-b2", Kinds: k, BufSizes: []int{3, 5, 8}, Level: 1, Inputs: Binary(6), Menu: m, Bound: 2},
			{Name: "gsap-long", Kinds: k, BufSizes: []int{40, 80, 160}, Level: 1, Inputs: StructuredSet(70, 130, 200), Menu: m, Bound: 1, CfgFilter: notTinyBlocks},
		}
	}
	return []Layer{
		{Name: "gsap-longrepeat", Kinds: k, Geos: []lz.BufConfig{{BufferSize: 2048, WindowSize: 2048, BlockSize: 2048}, {BufferSize: 2048, WindowSize: 2048, BlockSize: 700}}, Level: 0, Inputs: LongRepeats(), Menu: Menu{WriteChunks: true}, Bound: 0, CfgPerShard: 1},
		{Name: "gsap-b0", Kinds: k, BufSizes: allQuickBuf, Level: 1, Inputs: Union(Binary(7), Ternary(4), ZeroA(4)), Menu: m, Bound: 0},
		{Name: "gsap-b1", Kinds: k, BufSizes: []int{3, 5, 8}, Level: 1, Inputs: Binary(5), Menu: m, Bound: 1},
		{Name: "gsap-long", Kinds: k, BufSizes: []int{80}, Level: 0, Inputs: StructuredSet(130), Menu: m, Bound: 0, CfgFilter: notTinyBlocks, CfgPerShard: 2},
	}
}

func gsapResetLayers(tier string) []resetLayer {
	var out []resetLayer
	for _, l := range resetLayers(tier) {
		if l.Name == "sa-multifill" || l.Name == "sa-wide" {
			l.Kinds = []string{"GSAP"}
			out = append(out, l)
		}
	}
	return out
}

// LongRepeats: texts P[:a] # P[:b] $ P[:c] over a de Bruijn word P (no internal repeat of 5 letters), so that the
// last copy has two earlier sources of different, long lengths (up to 600 bytes: beyond 255/256/273).
func LongRepeats() InputSet {
	return InputSet{"P[:a]#P[:b]$P[:c], P = deBruijn(acgt,5), (a,b,c) in a grid of {10,255,256,257,300,600}", func(f func([]byte)) {
		P := DeBruijn([]byte("acgt"), 5)
		for _, t := range [][3]int{{256, 257, 257}, {257, 256, 257}, {300, 600, 600}, {600, 300, 600}, {10, 255, 300}, {255, 600, 600}, {600, 255, 256}, {273, 274, 600}} {
			s := append([]byte(nil), P[:t[0]]...)
			s = append(s, '#')
			s = append(s, P[:t[1]]...)
			s = append(s, '$')
			s = append(s, P[:t[2]]...)
			f(s)
		}
	}}
}

// notTinyBlocks drops geometries with BlockSize <= 3 for the long inputs (hundreds of Parse calls add nothing).
func notTinyBlocks(pc PCfg) bool {
	bc := pc.Config().BufConfig()
	bc.SetDefaults()
	return bc.BlockSize > 3
}

func init() {
	register(&Check{
		ID: "C12",
		Shards: func(tier string) []engine.Shard {
			depth := 6
			if tier == "thorough" {
				depth = 7
			}
			shards := parserShards("C12", gsapLayers(tier), OracleC12)
			// the same oracle on parsers that have a history and were Reset
			shards = append(shards, resetShardsFor("C12", gsapResetLayers(tier), OracleC12)...)
			shards = append(shards, engine.Shard{Name: "C12/bitset-bfs", Run: func(st *engine.Stats, col *engine.Collector) {
				runBitsetBFS("C12", depth, st, col)
			}})
			return shards
		},
		Replay: func(raw json.RawMessage, col *engine.Collector) error {
			var probe struct {
				Component string  `json:"component"`
				Prior     *string `json:"prior_hex"`
			}
			json.Unmarshal(raw, &probe)
			if probe.Component == "bitset" {
				return replayBS("C12", raw, col)
			}
			if probe.Prior != nil {
				return replayResetFor("C12", OracleC12, raw, col)
			}
			return replayParser("C12", raw, OracleC12, col)
		},
		Bounds: func(tier string) map[string]any {
			m := layerBounds(gsapLayers(tier))
			m["bitset_bfs"] = map[string]any{"operations": "insert(x) for x in {0,1,63,64,65,127,128,130,191,192,400}, clear()", "depth": map[string]int{"quick": 6, "thorough": 7}[tier],
				"probe": "memberBefore(x)/memberAfter(x) of the value just inserted (the only queries GSAP makes), against a sorted-slice model"}
			return m
		},
		Rule:        ruleParser + "; plus explicit-state BFS of the bitset component (distinct (off,len,cap,words,members) states)",
		Explanation: "GSAP: every emitted match has the brute-force longest-previous-match length (clipped at the block end); with BufferSize <= WindowSize a literal implies that no match >= MinMatchLen exists; histories without Parse(nil). The bitset GSAP relies on is explored as a component because it only misbehaves across 64-bit word boundaries.",
		StatesNote:  "state = GSAP parser state hash (buffer, W, Off, sa length, members of the rank set) resp. bitset canonical state; transition = one API call on the real code",
		Assumptions: []string{"bounded inputs/configurations as stated", "histories using Parse(nil) are excluded as the property states"},
	})
}
